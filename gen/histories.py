#!/usr/bin/env python3
"""H — evolution histories (DESIGN §4): each version k of an evolving type is emitted as its own
module hN::vK with the definition a program at version k would contain (documented attribute
rules), so "data written by version i, read by version j" runs both real derive expansions.
The generator knows the field mapping (retained / added with which default / removed / converted)
and emits the expected values itself. Emits kani/src/hgen.rs with harness modules c03 and c18."""
import os, json

V = os.path.dirname(os.path.dirname(os.path.abspath(__file__)))
INT = {"u8": 1, "u16": 2, "u32": 4, "u64": 8, "i8": 1, "i32": 4}


class LF:
    """logical field. types: [(from_version, rust_type, conv)] ascending; conv: None (From) or fn name"""
    def __init__(s, name, types, added=0, removed=None, default=("Default",), removed_kind="AbiRemoved", ctor=None):
        s.name, s.types, s.added, s.removed, s.default, s.removed_kind, s.ctor = name, types, added, removed, default, removed_kind, ctor
        if isinstance(types, str):
            s.types = [(added, types, None)]
    def type_at(s, k):
        t = None
        for (f, ty, c) in s.types:
            if f <= k: t = ty
        return t
    def exists_at(s, k): return s.added <= k and (s.removed is None or k < s.removed)
    def default_expr(s, ty):
        if s.default[0] == "Default": return "<%s as Default>::default()" % ty
        if s.default[0] == "val": return "(%s as %s)" % (s.default[1], ty) if ty in INT else s.default[1]
        if s.default[0] == "fn": return "%s()" % s.default[1]
    def removed_value_expr(s, ty):
        """what an AbiRemoved field writes when an older version is produced"""
        if s.ctor: return "<%s as savefile::ValueConstructor<%s>>::make_value()" % (s.ctor, ty)
        return "<%s as Default>::default()" % ty


class Hist:
    def __init__(s, name, fields, nver, repr_c=False, tier="t", note="", extra=""):
        s.name, s.fields, s.nver, s.repr_c, s.tier, s.note, s.extra = name, fields, nver, repr_c, tier, note, extra
    def has_type_change(s): return any(len(f.types) > 1 for f in s.fields)
    def has_plain_removed(s): return any(f.removed is not None and f.removed_kind == "Removed" for f in s.fields)
    def has_string(s): return any(ty == "String" for f in s.fields for (_, ty, _) in f.types)

    def definition(s, k):
        """struct T as a version-k program declares it"""
        lines = []
        for f in s.fields:
            if f.added > k: continue
            attrs = []
            if f.removed is not None and f.removed <= k:
                ty_last = f.type_at(f.removed - 1)
                attrs.append('#[savefile_versions = "%d..%d"]' % (f.added, f.removed - 1))
                kind = f.removed_kind
                ty = "%s<%s%s>" % (kind, ty_last, (", " + f.ctor) if (f.ctor and kind == "AbiRemoved") else "")
                lines.append("        %s\n        pub %s: %s," % (" ".join(attrs), f.name, ty))
                continue
            ty = f.type_at(k)
            # current type valid from the last type change <= k
            cur_from = max(fr for (fr, _, _) in f.types if fr <= k)
            if cur_from > 0 or f.added > 0:
                attrs.append('#[savefile_versions = "%d.."]' % cur_from)
            prev = [(fr, t_, c) for (fr, t_, c) in f.types if fr < cur_from]
            for idx, (fr, t_, c) in enumerate(prev):
                to = ([x[0] for x in f.types if x[0] > fr][0]) - 1
                # conversion applied is the one declared on the *current* type's entry
                conv = [c2 for (fr2, _t2, c2) in f.types if fr2 == cur_from][0]
                attrs.append('#[savefile_versions_as = "%d..%d:%s%s"]' % (fr, to, (conv + ":") if conv else "", t_))
            if f.added > 0:
                if f.default[0] == "val": attrs.append('#[savefile_default_val = "%s"]' % f.default[1])
                if f.default[0] == "fn": attrs.append('#[savefile_default_fn = "%s"]' % f.default[1])
            lines.append("        %s\n        pub %s: %s," % (" ".join(attrs), f.name, ty))
        rep = "#[repr(C)]\n    " if s.repr_c else ""
        return "    #[derive(Savefile)]\n    %spub struct T {\n%s\n    }" % (rep, "\n".join(lines))


def any_expr(ty):
    if ty in INT or ty == "bool": return "kani::any::<%s>()" % ty
    if ty == "String": return "any_ascii_string()"
    raise Exception(ty)

def enc_stmt(expr, ty, buf="r"):
    if ty in INT: return "%s.put(&(%s).to_le_bytes());" % (buf, expr)
    if ty == "bool": return "%s.put(&[(%s) as u8]);" % (buf, expr)
    if ty == "String": return "{ let by = (%s).as_bytes(); %s.put(&(by.len() as u64).to_le_bytes()); let mut i = 0; while i < by.len() { %s.put(&[by[i]]); i += 1; } }" % (expr, buf, buf)
    raise Exception(ty)

def eq_expr(a, b, ty):
    if ty == "String": return "crate::scmp::str_same(&%s, &%s)" % (a, b)
    return "(%s == %s)" % (a, b)


def construct(h, k, var):
    """symbolic value of hN::vK::T"""
    parts = []
    for f in h.fields:
        if f.added > k: continue
        if f.removed is not None and f.removed <= k:
            parts.append("%s: %s::new()" % (f.name, f.removed_kind))
        else:
            parts.append("%s: %s" % (f.name, any_expr(f.type_at(k))))
    return "let %s = %s::v%d::T { %s };" % (var, h.name, k, ", ".join(parts))


def value_expr(h, k):
    """symbolic value expression of hN::vK::T"""
    parts = []
    for f in h.fields:
        if f.added > k: continue
        if f.removed is not None and f.removed <= k:
            parts.append("%s: %s::new()" % (f.name, f.removed_kind))
        else:
            parts.append("%s: %s" % (f.name, any_expr(f.type_at(k))))
    return "%s::v%d::T { %s }" % (h.name, k, ", ".join(parts))


def field_asserts(h, i, j, x, y, tag):
    out = []
    for f in h.fields:
        if f.added > j: continue
        if f.removed is not None and f.removed <= j: continue
        tj = f.type_at(j)
        if f.exists_at(i):
            exp = conv_expr(f, i, j, "%s.%s" % (x, f.name))
            if exp.startswith("conv"): exp = "%s::%s" % (h.name, exp)
            kind = "retained" if f.type_at(i) == tj else "converted"
            out.append('assert!(%s, "C03: %s field `%s` differs after loading version-%d data into version %d (%s)");' % (eq_expr("%s.%s" % (y, f.name), exp, tj), kind, f.name, i, j, tag))
        else:
            de_ = f.default_expr(tj)
            if f.default[0] == "fn": de_ = "%s::%s" % (h.name, de_)
            out.append('assert!(%s, "C03: added field `%s` does not hold its declared default (%s)");' % (eq_expr("%s.%s" % (y, f.name), de_, tj), f.name, tag))
    return out


def conv_expr(f, from_ver, to_ver, expr):
    """value of field as seen by a version-to_ver program, given the value written at from_ver"""
    t_from, t_to = f.type_at(from_ver), f.type_at(to_ver)
    if t_from == t_to: return expr
    conv = [c for (fr, ty, c) in f.types if ty == t_to][0]
    if conv: return "%s(%s)" % (conv, expr)
    return "<%s as From<%s>>::from(%s)" % (t_to, t_from, expr)


def histories():
    H = []
    H.append(Hist("h1", [LF("a", "u8"), LF("c", "u32", added=1, default=("val", "7")), LF("b", "u16", removed=2)], 3, tier="q",
                  note="add in the middle with savefile_default_val, then remove (AbiRemoved) the last field"))
    H.append(Hist("h2", [LF("a", "u32"), LF("b", "u32"), LF("c", "u32", added=1)], 2, repr_c=True, tier="q",
                  note="packed repr(C) all-u32 struct gains a field in version 1 (min_safe_version rule)"))
    H.append(Hist("h3", [LF("d", "u8", added=2, default=("fn", "deffn_d")), LF("a", [(0, "u8", None), (1, "u16", None)]), LF("s", "String")], 3, tier="q",
                  note="type change u8->u16 via From, then add at position 0 with savefile_default_fn; String neighbour",
                  extra="pub fn deffn_d() -> u8 { 42 }"))
    H.append(Hist("h4", [LF("a", "u16", removed=1, removed_kind="Removed"), LF("b", "u8"), LF("e", "u64", added=2)], 3, tier="q",
                  note="remove first field with Removed<T>, then add at the end with Default"))
    H.append(Hist("h5", [LF("x", "u8"), LF("a", [(0, "u8", None), (1, "u32", "conv_a")]), LF("y", "u16")], 2, tier="t",
                  note="type change with a named converter between two retained fields",
                  extra="pub fn conv_a(x: u8) -> u32 { (x as u32).wrapping_mul(2).wrapping_add(1) }"))
    H.append(Hist("h6", [LF("p", "u16", added=1, default=("val", "513")), LF("a", "u8"), LF("q", "u8", added=2), LF("b", "u32", removed=3, ctor="CtorB"), LF("z", "u8")], 4, tier="t",
                  note="three steps: add at position 0, add at position 2, remove a middle field (AbiRemoved with a custom ValueConstructor)",
                  extra="#[derive(Debug, PartialEq, Eq, Clone, Copy)]\npub struct CtorB;\nimpl savefile::ValueConstructor<u32> for CtorB { fn make_value() -> u32 { 0xA1B2C3D4 } }"))
    H.append(Hist("h7", [LF("a", "u8"), LF("b", "u8"), LF("c", "u16", added=1), LF("d", "u32", added=1, default=("val", "1000"))], 2, repr_c=True, tier="t",
                  note="packed repr(C) u8,u8,u16,u32: two fields added in version 1"))
    H.append(Hist("h9", [LF("a", "u8"), LF("w", [(1, "u8", None), (2, "u16", None)], added=1), LF("z", "u8")], 3, tier="q",
                  note="field added in version 1 (Default) and type-changed in version 2: loaded from before it existed and from the old type"))
    H.append(Hist("h10", [LF("a", "u64"), LF("x", "u16", added=1, removed=2, default=("val", "300")), LF("b", "u8")], 3, tier="q",
                  note="the same field is added in version 1 and removed (AbiRemoved) in version 2"))
    H.append(Hist("h11", [LF("a", "u32"), LF("b", "u16", removed=1), LF("c", "u16"), LF("d", "u32")], 2, tier="t",
                  note="repr(Rust) struct: packed-primitive run directly before and after an AbiRemoved field"))
    H.append(Hist("h12", [LF("a", "u8"), LF("b", [(0, "u8", None), (2, "u16", None)]), LF("c", "u8", added=1, default=("val", "5")), LF("z", "u16")], 3, tier="q",
                  note="type change in version 2 of a field that exists since version 0: the old type spans two versions (versions_as 0..1)"))
    H.append(Hist("h8", [LF("a", "u32"), LF("b", "u32", removed=1), LF("c", "u32")], 2, repr_c=True, tier="q",
                  note="packed repr(C): middle field removed (AbiRemoved): version 0 wire != memory layout of version 1"))
    H.append(Hist("h13", [LF("a", "u32"), LF("b", "u32", added=2), LF("c", "u32", added=1)], 3, repr_c=True, tier="q",
                  note="packed repr(C): two fields added in different versions, the earlier-declared one is the newer (min_safe_version must be the maximum, not the last)"))
    H.append(Hist("h14", [LF("a", "u16", added=1), LF("b", "u16", removed=2), LF("c", "u32")], 3, repr_c=True, tier="t",
                  note="packed repr(C): a field added in version 1 is declared before a field removed in version 2"))
    return H


ENUMS = [
    # (name, tier, note, versions: list of variant lists; variant = (name, [field types], added_version, [(field type, added)]...)
    ("e1", "q", "variant appended in version 1",
     [("A", []), ("B", [("u8", 0)]), ("C", [("u16", 0)], 1)], 2),
    ("e2", "t", "variant appended in version 1 and a field added to an existing variant in version 2",
     [("A", [("u8", 0), ("u16", 2)]), ("B", []), ("C", [("u32", 0)], 1)], 3),
    ("e3", "q", "repr(u32) padding-free enum whose variant gains a field in version 1 (packed candidate)",
     [("A", [("u32", 0), ("u32", 1)]), ("B", [("u32", 0), ("u32", 0)])], 2, "u32"),
]


def emit():
    H = histories()
    out = ["//! GENERATED by gen/histories.py — do not edit. H: evolution histories, one module per version.",
           "#![allow(unused_variables, unused_mut, unused_imports, non_snake_case, dead_code)]",
           "use crate::common::*;", "use crate::vt::*;", "use savefile::prelude::*;", "use savefile::Packed;", ""]
    cat = []
    c03 = {"q": [], "t": []}
    c18 = {"q": [], "t": []}
    c12h = {"q": [], "t": []}
    for h in H:
        out.append("pub mod %s {\n    use super::*;\n    %s" % (h.name, h.extra.replace("\n", "\n    ")))
        for k in range(h.nver):
            out.append("    pub mod v%d {\n    use super::*;\n%s\n    }" % (k, h.definition(k)))
        out.append("}")
        cat.append({"history": h.name, "tier": h.tier, "note": h.note, "versions": [h.definition(k) for k in range(h.nver)]})
        uw = 7 if h.has_string() else 5
        # ---------------- C03: written by version i, read by version j >= i
        for i in range(h.nver):
            for j in range(i, h.nver):
                body = ["set_len(2);", construct(h, i, "x")]
                body.append("let (buf, n) = ser::<%s::v%d::T, 64>(&x, %d).unwrap();" % (h.name, i, i))
                body.append("let (y, left) = de::<%s::v%d::T>(&buf[..n], %d).unwrap();" % (h.name, j, i))
                body.append('assert!(left == 0, "C03: the version-%d reader did not consume exactly the version-%d data");' % (j, i))
                for f in h.fields:
                    if f.added > j: continue
                    if f.removed is not None and f.removed <= j: continue   # Removed marker in j: nothing to compare
                    tj = f.type_at(j)
                    if f.exists_at(i):
                        exp = conv_expr(f, i, j, "x.%s" % f.name)
                        if exp != "x.%s" % f.name and exp.startswith("conv"): exp = "%s::%s" % (h.name, exp)
                        kind = "retained" if f.type_at(i) == tj else "converted"
                        body.append('assert!(%s, "C03: %s field `%s` differs after loading version-%d data into version %d");' % (eq_expr("y.%s" % f.name, exp, tj), kind, f.name, i, j))
                    else:
                        de_ = f.default_expr(tj)
                        if f.default[0] == "fn": de_ = "%s::%s" % (h.name, de_)
                        body.append('assert!(%s, "C03: added field `%s` does not hold its declared default");' % (eq_expr("y.%s" % f.name, de_, tj), f.name))
                body += ["std::mem::forget(x); std::mem::forget(y);", 'kani::cover!(true, "reached end");']
                tier = "q" if (h.tier == "q") else "t"
                c03[tier].append("kproof!(%s_w%d_r%d, %d, {\n        %s\n    });" % (h.name, i, j, uw, "\n        ".join(body)))
        # ---------------- C12 over versions: the schema version j's definition reports for data version i
        # describes the bytes version i's own definition writes (version gates of implement_withschema)
        if not h.has_string() and h.name not in ("h13", "h14"):   # h13/h14: not validated for C12 (run killed at 6 GB per harness under load)
            for j in range(h.nver):
                for i in range(j + 1):
                    body = ["set_len(2);", construct(h, i, "x"),
                            "let (buf, n) = ser::<%s::v%d::T, 64>(&x, %d).unwrap();" % (h.name, i, i),
                            "let s = get_schema::<%s::v%d::T>(%d);" % (h.name, j, i),
                            "let r = crate::c12::walk(&s, &buf[..n], 0);",
                            'assert!(r != Err(crate::c12::WalkErr::Recursion) && r != Err(crate::c12::WalkErr::Unsupported), "C12: schema uses a recursion marker / node kind the documented reader does not know");',
                            'assert!(r == Ok(n), "C12: the schema the version-%d definition reports for data version %d does not describe the bytes the version-%d definition wrote");' % (j, i, i),
                            "std::mem::forget(x); std::mem::forget(s);", 'kani::cover!(true, "reached end");']
                    c12h["q" if (h.tier == "q" and j == h.nver - 1) else "t"].append("kproof!(%s_s%d_d%d, 8, {\n        %s\n    });" % (h.name, j, i, "\n        ".join(body)))
        # load_noschema route (header carries version i, program is at version j): last pair only
        i, j = 0, h.nver - 1
        body = ["set_len(1);", construct(h, i, "x"), "let mut buf = [0u8; 96];", "let n;",
                "{ let mut cur = std::io::Cursor::new(&mut buf[..]); save_noschema(&mut cur, %d, &x).unwrap(); n = cur.position() as usize; }" % i,
                "let mut rd: &[u8] = &buf[..n];",
                "let y: %s::v%d::T = load_noschema(&mut rd, %d).unwrap();" % (h.name, j, j),
                'assert!(rd.len() == 0, "C03: load_noschema did not consume the whole file");']
        for f in h.fields:
            if f.added > j or (f.removed is not None and f.removed <= j): continue
            tj = f.type_at(j)
            if f.exists_at(i):
                exp = conv_expr(f, i, j, "x.%s" % f.name)
                if exp.startswith("conv"): exp = "%s::%s" % (h.name, exp)
                body.append('assert!(%s, "C03: field `%s` differs after load_noschema across versions");' % (eq_expr("y.%s" % f.name, exp, tj), f.name))
            else:
                de_ = f.default_expr(tj)
                if f.default[0] == "fn": de_ = "%s::%s" % (h.name, de_)
                body.append('assert!(%s, "C03: added field `%s` does not hold its declared default (load_noschema)");' % (eq_expr("y.%s" % f.name, de_, tj), f.name))
        body += ["std::mem::forget(x); std::mem::forget(y);", 'kani::cover!(true, "reached end");']
        c03["q" if h.tier == "q" else "t"].append("kproof!(%s_noschema_w%d_r%d, 12, {\n        %s\n    });" % (h.name, i, j, "\n        ".join(body)))
        # ---------------- C18: newest program writes version k <= n; version-k program reads it
        if not h.has_type_change() and not h.has_plain_removed():
            n = h.nver - 1
            for k in range(h.nver):
                body = ["set_len(2);", construct(h, n, "x"), "let mut r = RefBuf::new();"]
                expf = []
                for f in h.fields:
                    if not f.exists_at(k): continue
                    ty = f.type_at(k)
                    if f.exists_at(n):
                        e = "x.%s" % f.name
                    else:  # removed since: constructed value
                        e = f.removed_value_expr(ty)
                        if f.ctor: e = e.replace("<%s as" % f.ctor, "<%s::%s as" % (h.name, f.ctor))
                    expf.append((f, ty, e))
                    body.append(enc_stmt(e, ty))
                body.append("let (buf, nn) = ser::<%s::v%d::T, 64>(&x, %d).unwrap();" % (h.name, n, k))
                body.append('assert!(nn == r.n, "C18: data written at version %d has a different length than the version-%d encoding");' % (k, k))
                body.append("let i: usize = kani::any(); kani::assume(i < r.n);")
                body.append('assert!(buf[i] == r.b[i], "C18: data written at version %d differs from the version-%d encoding");' % (k, k))
                body.append("let (y, left) = de::<%s::v%d::T>(&buf[..nn], %d).unwrap();" % (h.name, k, k))
                body.append('assert!(left == 0, "C18: the version-%d definition did not consume exactly the data written at version %d");' % (k, k))
                for (f, ty, e) in expf:
                    body.append('assert!(%s, "C18: field `%s` read by the version-%d definition differs");' % (eq_expr("y.%s" % f.name, e, ty), f.name, k))
                # packed rule: never bulk-copy at a version whose wire layout differs from the memory layout
                body.append("let p = unsafe { <%s::v%d::T as Packed>::repr_c_optimization_safe(%d) }.is_yes();" % (h.name, n, k))
                body.append('if p { assert!(std::mem::size_of::<%s::v%d::T>() == r.n, "C18: packed fast path allowed for a version whose wire size differs from the memory size"); }' % (h.name, n))
                body += ["std::mem::forget(x); std::mem::forget(y);", 'kani::cover!(true, "reached end");']
                c18["q" if h.tier == "q" else "t"].append("kproof!(%s_n%d_k%d, %d, {\n        %s\n    });" % (h.name, n, k, uw, "\n        ".join(body)))
    # ---------------- nesting: the evolving type inside another struct and inside a Vec (C03)
    for h in H:
        if h.name not in ("h1", "h4", "h8", "h9"): continue
        out.append("pub mod %s_nest {\n    use super::*;" % h.name)
        for k in range(h.nver):
            out.append("    pub mod v%d {\n    use super::*;\n    #[derive(Savefile)]\n    pub struct O { pub pre: u8, pub inner: %s::v%d::T, pub post: u16 }\n    #[derive(Savefile)]\n    pub struct OV { pub items: Vec<%s::v%d::T>, pub post: u16 }\n    }" % (k, h.name, k, h.name, k))
        out.append("}")
        for i in range(h.nver):
            for j in range(i, h.nver):
                if i == j and i != 0: continue
                tier = "q" if (h.name in ("h1", "h8") and i == 0 and j == h.nver - 1) else "t"
                body = ["set_len(1);", "let x = %s_nest::v%d::O { pre: kani::any(), inner: %s, post: kani::any() };" % (h.name, i, value_expr(h, i))]
                body.append("let (buf, n) = ser::<%s_nest::v%d::O, 64>(&x, %d).unwrap();" % (h.name, i, i))
                body.append("let (y, left) = de::<%s_nest::v%d::O>(&buf[..n], %d).unwrap();" % (h.name, j, i))
                body.append('assert!(left == 0, "C03: nested: the version-%d reader did not consume exactly the version-%d data");' % (j, i))
                body.append('assert!(y.pre == x.pre && y.post == x.post, "C03: neighbours of a nested evolving struct were disturbed");')
                body += field_asserts(h, i, j, "x.inner", "y.inner", "nested in a struct")
                body += ["std::mem::forget(x); std::mem::forget(y);", 'kani::cover!(true, "reached end");']
                c03[tier].append("kproof!(%s_nest_w%d_r%d, 7, {\n        %s\n    });" % (h.name, i, j, "\n        ".join(body)))
                body = ["set_len(1);", "let x = %s_nest::v%d::OV { items: vec![%s, %s], post: kani::any() };" % (h.name, i, value_expr(h, i), value_expr(h, i))]
                body.append("let (buf, n) = ser::<%s_nest::v%d::OV, 96>(&x, %d).unwrap();" % (h.name, i, i))
                body.append("let (y, left) = de::<%s_nest::v%d::OV>(&buf[..n], %d).unwrap();" % (h.name, j, i))
                body.append('assert!(left == 0, "C03: in Vec: the version-%d reader did not consume exactly the version-%d data");' % (j, i))
                body.append('assert!(y.items.len() == 2 && y.post == x.post, "C03: element count or neighbour of a Vec of evolving structs was disturbed");')
                body += field_asserts(h, i, j, "x.items[0]", "y.items[0]", "first Vec element")
                body += field_asserts(h, i, j, "x.items[1]", "y.items[1]", "second Vec element")
                body += ["std::mem::forget(x); std::mem::forget(y);", 'kani::cover!(true, "reached end");']
                c03[tier].append("kproof!(%s_vec_w%d_r%d, 7, {\n        %s\n    });" % (h.name, i, j, "\n        ".join(body)))
    # ---------------- enum histories
    for ent in ENUMS:
        (name, tier, note, variants, nver) = ent[:5]
        erepr = ent[5] if len(ent) > 5 else None
        out.append("pub mod %s {\n    use super::*;" % name)
        defs = []
        for k in range(nver):
            vs = []
            for v in variants:
                vadd = v[2] if len(v) > 2 else 0
                if vadd > k: continue
                fl = []
                for (ft, fadd) in v[1]:
                    if fadd > k: continue
                    fl.append(('#[savefile_versions = "%d.."] ' % fadd if fadd > 0 else "") + ft)
                vs.append(('#[savefile_versions = "%d.."] ' % vadd if vadd > 0 else "") + v[0] + ("(%s)" % ", ".join(fl) if fl else ""))
            d = "    #[derive(Savefile)]\n    %spub enum E { %s }" % (("#[repr(%s)]\n    " % erepr) if erepr else "", ", ".join(vs))
            defs.append(d)
            out.append("    pub mod v%d {\n    use super::*;\n%s\n    }" % (k, d))
        out.append("}")
        cat.append({"history": name, "tier": tier, "note": note, "versions": defs})
        def fields_at(v, k): return [(ft, fadd) for (ft, fadd) in v[1] if fadd <= k]
        def vars_at(k): return [(idx, v) for idx, v in enumerate(variants) if (v[2] if len(v) > 2 else 0) <= k]
        # C03: each variant existing at version i, written by vI, read by vJ
        for i in range(nver):
            for j in range(i, nver):
                for (idx, v) in vars_at(i):
                    fi, fj = fields_at(v, i), fields_at(v, j)
                    binds = ["f%d" % t for t in range(len(fi))]
                    body = ["let x = %s::v%d::E::%s%s;" % (name, i, v[0], "(%s)" % ", ".join(any_expr(ft) for (ft, _) in fi) if fi else "")]
                    body.append("let (buf, n) = ser::<%s::v%d::E, 32>(&x, %d).unwrap();" % (name, i, i))
                    body.append("let (y, left) = de::<%s::v%d::E>(&buf[..n], %d).unwrap();" % (name, j, i))
                    body.append('assert!(left == 0, "C03: the version-%d reader did not consume exactly the version-%d enum data");' % (j, i))
                    pat_x = "%s::v%d::E::%s%s" % (name, i, v[0], "(%s)" % ", ".join("a%d" % t for t in range(len(fi))) if fi else "")
                    pat_y = "%s::v%d::E::%s%s" % (name, j, v[0], "(%s)" % ", ".join("b%d" % t for t in range(len(fj))) if fj else "")
                    conds = ["(*a%d == *b%d)" % (t, t) for t in range(len(fi))] + ["(*b%d == <%s as Default>::default())" % (t, fj[t][0]) for t in range(len(fi), len(fj))]
                    body.append("match (&x, &y) { (%s, %s) => { assert!(%s, \"C03: enum payload differs or added field is not its default\"); } _ => panic!(\"C03: variant changed when loading older data\") }" % (pat_x, pat_y, " && ".join(conds) or "true"))
                    body += ['kani::cover!(true, "reached end");']
                    c03[tier].append("kproof!(%s_%s_w%d_r%d, 5, {\n        %s\n    });" % (name, v[0], i, j, "\n        ".join(body)))
        # C18: newest program writes version k; variants existing at k
        n = nver - 1
        for k in range(nver):
            for (idx, v) in vars_at(k):
                fn_, fk = fields_at(v, n), fields_at(v, k)
                body = ["let x = %s::v%d::E::%s%s;" % (name, n, v[0], "(%s)" % ", ".join(any_expr(ft) for (ft, _) in fn_) if fn_ else "")]
                body.append("let (buf, nn) = ser::<%s::v%d::E, 32>(&x, %d).unwrap();" % (name, n, k))
                body.append("let (y, left) = de::<%s::v%d::E>(&buf[..nn], %d).unwrap();" % (name, k, k))
                body.append('assert!(left == 0, "C18: the version-%d enum definition did not consume exactly the data written at version %d");' % (k, k))
                body.append('assert!(buf[0] == %du8, "C18: discriminant written for an older version is not the variant index");' % idx)
                body.append('assert!(nn == %d, "C18: data written at version %d has a different length than the version-%d encoding");' % ((INT[erepr] if erepr else 1) + sum(INT[ft] for (ft, _) in fk), k, k))
                pat_x = "%s::v%d::E::%s%s" % (name, n, v[0], "(%s)" % ", ".join("a%d" % t for t in range(len(fn_))) if fn_ else "")
                pat_y = "%s::v%d::E::%s%s" % (name, k, v[0], "(%s)" % ", ".join("b%d" % t for t in range(len(fk))) if fk else "")
                conds = ["(*a%d == *b%d)" % (t, t) for t in range(len(fk))]
                body.append("match (&x, &y) { (%s, %s) => { assert!(%s, \"C18: enum payload read by the older definition differs\"); } _ => panic!(\"C18: variant changed when writing an older version\") }" % (pat_x, pat_y, " && ".join(conds) or "true"))
                body += ['kani::cover!(true, "reached end");']
                c18[tier].append("kproof!(%s_%s_n%d_k%d, 5, {\n        %s\n    });" % (name, v[0], n, k, "\n        ".join(body)))
    c18p = {"q": [], "t": []}
    native = []
    for ent in ENUMS:
        (name, tier, note, variants, nver) = ent[:5]
        n = nver - 1
        for k in range(nver):
            for idx, v in enumerate(variants):
                vadd = v[2] if len(v) > 2 else 0
                if vadd <= k: continue
                fn_ = [(ft, fadd) for (ft, fadd) in v[1] if fadd <= n]
                c18p[tier].append("#[kani::proof]\n    #[kani::should_panic]\n    #[kani::stub(std::collections::hash_map::RandomState::new, crate::common::fixed_keys)]\n    #[kani::stub(alloc::fmt::format, crate::common::fmt_stub)]\n    #[kani::unwind(5)]\n    pub fn %s_%s_absent_k%d() {\n        let x = %s::v%d::E::%s%s;\n        // documented: writing a variant that does not exist in the written version panics; silently emitting it would\n        // produce data the older definition cannot read\n        let _ = ser::<%s::v%d::E, 32>(&x, %d);\n    }" % (
                    name, v[0], k, name, n, v[0], "(%s)" % ", ".join(any_expr(ft) for (ft, _) in fn_) if fn_ else "", name, n, k))
                native.append("#[test]\n    #[should_panic]\n    fn %s_%s_absent_k%d() {\n        let x = %s::v%d::E::%s%s;\n        let _ = ser::<%s::v%d::E, 32>(&x, %d);\n    }" % (
                    name, v[0], k, name, n, v[0], "(%s)" % ", ".join("Default::default()" for _ in fn_) if fn_ else "", name, n, k))
    out.append("/// native replay of the should_panic harnesses (run by ./check when one of them stops panicking)\n#[cfg(all(test, not(kani)))]\nmod native {\n    use super::*;\n    %s\n}" % "\n    ".join(native))
    out.append("#[cfg(kani)]\npub mod c18p {\n    use super::*;")
    for t, hs in c18p.items():
        out.append("    pub mod %s {\n    use super::*;\n    %s\n    }" % (t, "\n    ".join(hs)))
    out.append("}")
    for (m, d) in (("c03", c03), ("c18", c18), ("c12h", c12h)):
        out.append("#[cfg(kani)]\npub mod %s {\n    use super::*;" % m)
        for t, hs in d.items():
            out.append("    pub mod %s {\n    use super::*;\n    %s\n    }" % (t, "\n    ".join(hs)))
        out.append("}")
    path = os.path.join(V, "kani", "src", "hgen.rs")
    txt = "\n".join(out) + "\n"
    if not os.path.exists(path) or open(path).read() != txt:
        open(path, "w").write(txt)
    json.dump(cat, open(os.path.join(V, "gen", "catalogue_H.json"), "w"), indent=0)
    return len(H) + len(ENUMS), {"c03": {t: len(x) for t, x in c03.items()}, "c18": {t: len(x) for t, x in c18.items()}}


if __name__ == "__main__":
    print(emit())
