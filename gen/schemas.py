#!/usr/bin/env python3
"""S — catalogue of Schema shapes (DESIGN §4) and the harnesses that quantify over them.

Every shape is a concrete tree (node kinds, names, counts, option presence = *structure*), whose
numeric leaves (sizes, alignments, offsets, array counts, discriminants, discriminant sizes,
recursion depths, layout bytes, flags) are symbolic in the emitted harness.  For every shape the
generator — not savefile — knows:
  * the reference bytes of the schema section at library format version f (documented layout),
  * the schema a format-0 section decodes to (layout annotations erased),
  * a boolean expression over the leaves of two instances saying "no wire-layout difference"
    (oracle for diff_schema) and one saying "provably identical memory layout" (oracle for
    layout_compatible).
Emits kani/src/sgen.rs (modules c13s, c13d, c11l, c06s)."""
import itertools, os, json

V = os.path.dirname(os.path.dirname(os.path.abspath(__file__)))

PRIMS = {"i8": 1, "u8": 2, "i16": 3, "u16": 4, "i32": 5, "u32": 6, "i64": 7, "u64": 8, "string": 9, "f32": 10, "f64": 11,
         "bool": 12, "canary1": 13, "i128": 14, "u128": 15, "char": 16}


def rs_str(s):
    return '"%s".to_string()' % s


class Ctx:
    """collects symbolic leaves for one instance (prefix distinguishes the two sides of a pair)"""
    def __init__(self, prefix):
        self.prefix, self.leaves, self.n = prefix, [], 0

    def leaf(self, ty, constraint=None):
        name = "%s%d" % (self.prefix, self.n)
        self.n += 1
        self.leaves.append((name, ty, constraint))
        return name

    def decls(self, concrete=False):
        out = []
        for idx, (n, ty, c) in enumerate(self.leaves):
            if concrete:
                # fixed, pairwise different values inside the leaf's range: a twin of the symbolic harness that
                # stays cheap when a changed reader desynchronises (symbolic junk lengths make CBMC explode)
                if ty == "bool": v = "true" if idx % 2 == 0 else "false"
                elif c and "< 3" in c: v = str(idx % 3)
                elif c and "<= 8" in c: v = str(1 + idx % 8)
                elif ty == "u8": v = str(3 + idx)
                else: v = str(40 + 8 * idx)
                out.append("let %s: %s = %s;" % (n, ty, v))
                continue
            out.append("let %s: %s = kani::any();" % (n, ty))
            if c:
                out.append("kani::assume(%s);" % c.replace("$", n))
        return out


def put_u64(expr):
    return "r.put(&((%s) as u64).to_le_bytes());" % expr


def put_str(s):
    return [put_u64(len(s))] + (["r.put(b\"%s\");" % s] if s else [])


def put_opt_usize(present, leaf):
    if present:
        return ["r.put(&[1u8]);", put_u64(leaf)]
    return ["r.put(&[0u8]);"]


class Node:
    kind = "?"
    def children(self): return []
    def size(self): return 1 + sum(c.size() for c in self.children())
    def has_trait(self): return any(c.has_trait() for c in self.children())
    def has_undefined(self): return any(c.has_undefined() for c in self.children())
    def has_future(self): return any(c.has_future() for c in self.children())
    def inst(self, ctx):
        """instantiate: allocate leaves; returns an Inst with .build / .ref(f) / .erased"""
        raise NotImplementedError


class Inst:
    def __init__(self, node, build, ref, erased, kids=(), data=None):
        self.node, self.build, self.ref, self.erased, self.kids, self.data = node, build, ref, erased, list(kids), data or {}


TRUE, FALSE = "true", "false"
def AND(*xs):
    xs = [x for x in xs if x != TRUE]
    if any(x == FALSE for x in xs): return FALSE
    return "(" + " && ".join(xs) + ")" if xs else TRUE


class Prim(Node):
    kind = "Primitive"
    def __init__(s, p): s.p = p
    def desc(s): return "Prim(%s)" % s.p
    def inst(s, ctx):
        if s.p == "string":
            l = ctx.leaf("u8", "$ <= 8")
            b = "Schema::Primitive(SchemaPrimitive::schema_string(layout_from(%s)))" % l
            e = "Schema::Primitive(SchemaPrimitive::schema_string(VecOrStringLayout::Unknown))"
            ref = lambda f: ["r.put(&[3u8, 9u8]);"] + (["r.put(&[%s]);" % l] if f > 0 else [])
            return Inst(s, b, ref, e, data={"layout": l})
        b = "Schema::Primitive(SchemaPrimitive::schema_%s)" % s.p
        return Inst(s, b, lambda f: ["r.put(&[3u8, %du8]);" % PRIMS[s.p]], b)


class Leaf0(Node):
    """nodes without payload"""
    TAG = {"Undefined": 5, "ZeroSize": 6, "Str": 13, "StdIoError": 17, "UninitSlice": 19, "UtcTimestamp": 20}
    def __init__(s, k): s.kind = k
    def desc(s): return s.kind
    def has_undefined(s): return s.kind == "Undefined"
    def inst(s, ctx):
        b = "Schema::%s" % s.kind
        return Inst(s, b, lambda f: ["r.put(&[%du8]);" % s.TAG[s.kind]], b)


class Custom(Node):
    kind = "Custom"
    def __init__(s, name): s.name = name
    def desc(s): return "Custom(%r)" % s.name
    def inst(s, ctx):
        b = "Schema::Custom(%s)" % rs_str(s.name)
        return Inst(s, b, lambda f: ["r.put(&[9u8]);"] + put_str(s.name), b)


class Recursion(Node):
    kind = "Recursion"
    def desc(s): return "Recursion"
    def inst(s, ctx):
        d = ctx.leaf("usize")
        b = "Schema::Recursion(%s)" % d
        return Inst(s, b, lambda f: ["r.put(&[16u8]);", put_u64(d)], b, data={"depth": d})


class Unary(Node):
    TAG = {"Vector": 4, "SchemaOption": 7, "Boxed": 10, "Slice": 12, "Reference": 14}
    def __init__(s, k, inner): s.kind, s.inner = k, inner
    def children(s): return [s.inner]
    def desc(s): return "%s(%s)" % (s.kind, s.inner.desc())
    def inst(s, ctx):
        if s.kind == "Vector":
            l = ctx.leaf("u8", "$ <= 8")
            k = s.inner.inst(ctx)
            b = "Schema::Vector(Box::new(%s), layout_from(%s))" % (k.build, l)
            e = "Schema::Vector(Box::new(%s), VecOrStringLayout::Unknown)" % k.erased
            ref = lambda f: ["r.put(&[4u8]);"] + k.ref(f) + (["r.put(&[%s]);" % l] if f > 0 else [])
            return Inst(s, b, ref, e, [k], {"layout": l})
        k = s.inner.inst(ctx)
        b = "Schema::%s(Box::new(%s))" % (s.kind, k.build)
        e = "Schema::%s(Box::new(%s))" % (s.kind, k.erased)
        return Inst(s, b, lambda f: ["r.put(&[%du8]);" % s.TAG[s.kind]] + k.ref(f), e, [k])


class Array(Node):
    kind = "Array"
    def __init__(s, inner): s.inner = inner
    def children(s): return [s.inner]
    def desc(s): return "Array(%s)" % s.inner.desc()
    def inst(s, ctx):
        c = ctx.leaf("usize")
        k = s.inner.inst(ctx)
        b = "Schema::Array(SchemaArray { item_type: Box::new(%s), count: %s })" % (k.build, c)
        e = "Schema::Array(SchemaArray { item_type: Box::new(%s), count: %s })" % (k.erased, c)
        return Inst(s, b, lambda f: ["r.put(&[8u8]);", put_u64(c)] + k.ref(f), e, [k], {"count": c})


class FieldD:
    def __init__(s, name, node, has_off): s.name, s.node, s.has_off = name, node, has_off


def inst_fields(fields, ctx):
    out = []
    for fd in fields:
        off = ctx.leaf("usize") if fd.has_off else None
        k = fd.node.inst(ctx)
        out.append((fd, off, k))
    return out

def build_fields(fi, erased=False):
    return "vec![%s]" % ", ".join("unsafe { Field::unsafe_new(%s, Box::new(%s), %s) }" % (
        rs_str(fd.name), (k.erased if erased else k.build), ("Some(%s)" % off) if (off and not erased) else "None") for (fd, off, k) in fi)

def ref_fields(fi, f):
    out = []
    for (fd, off, k) in fi:
        out += put_str(fd.name) + k.ref(f)
        if f > 0:
            out += put_opt_usize(off is not None, off)
    return out


class Struct(Node):
    kind = "Struct"
    def __init__(s, name, fields, has_size=True, has_align=True): s.name, s.fields, s.has_size, s.has_align = name, fields, has_size, has_align
    def children(s): return [f.node for f in s.fields]
    def desc(s): return "Struct%s{%s}%s" % (repr(s.name), ", ".join("%s:%s%s" % (f.name, f.node.desc(), "@" if f.has_off else "") for f in s.fields), ("" if s.has_size else "!size") + ("" if s.has_align else "!align"))
    def inst(s, ctx):
        sz = ctx.leaf("usize") if s.has_size else None
        al = ctx.leaf("usize") if s.has_align else None
        fi = inst_fields(s.fields, ctx)
        b = "Schema::Struct(SchemaStruct::new_unsafe(%s, %s, %s, %s))" % (rs_str(s.name), build_fields(fi), "Some(%s)" % sz if sz else "None", "Some(%s)" % al if al else "None")
        e = "Schema::Struct(SchemaStruct::new_unsafe(%s, %s, None, None))" % (rs_str(s.name), build_fields(fi, True))
        def ref(f):
            out = ["r.put(&[1u8]);"] + put_str(s.name) + [put_u64(len(s.fields))]
            if f > 0:
                out += put_opt_usize(sz is not None, sz) + put_opt_usize(al is not None, al)
            return out + ref_fields(fi, f)
        return Inst(s, b, ref, e, [k for (_, _, k) in fi], {"size": sz, "align": al, "fields": fi})


class VariantD:
    def __init__(s, name, fields): s.name, s.fields = name, fields


class Enum(Node):
    kind = "Enum"
    def __init__(s, name, variants, has_size=True, has_align=True): s.name, s.variants, s.has_size, s.has_align = name, variants, has_size, has_align
    def children(s): return [f.node for v in s.variants for f in v.fields]
    def desc(s): return "Enum%s{%s}" % (repr(s.name), " | ".join("%s(%s)" % (v.name, ", ".join(f.node.desc() + ("@" if f.has_off else "") for f in v.fields)) for v in s.variants))
    def inst(s, ctx):
        ds = ctx.leaf("u8")
        rp = ctx.leaf("bool")
        sz = ctx.leaf("usize") if s.has_size else None
        al = ctx.leaf("usize") if s.has_align else None
        vi = []
        for v in s.variants:
            d = ctx.leaf("u8")
            vi.append((v, d, inst_fields(v.fields, ctx)))
        def vb(erased):
            return "vec![%s]" % ", ".join("Variant { name: %s, discriminant: %s, fields: %s }" % (rs_str(v.name), d, build_fields(fi, erased)) for (v, d, fi) in vi)
        b = "Schema::Enum(unsafe { SchemaEnum::new_unsafe(%s, %s, %s, %s, %s, %s) })" % (rs_str(s.name), vb(False), ds, rp, "Some(%s)" % sz if sz else "None", "Some(%s)" % al if al else "None")
        e = "Schema::Enum(unsafe { SchemaEnum::new_unsafe(%s, %s, 1, false, None, None) })" % (rs_str(s.name), vb(True))
        def ref(f):
            out = ["r.put(&[2u8]);"] + put_str(s.name) + [put_u64(len(s.variants))]
            for (v, d, fi) in vi:
                out += put_str(v.name) + ["r.put(&[%s]);" % d, put_u64(len(v.fields))] + ref_fields(fi, f)
            if f > 0:
                out += ["r.put(&[%s]);" % ds, "r.put(&[%s as u8]);" % rp] + put_opt_usize(sz is not None, sz) + put_opt_usize(al is not None, al)
            return out
        eb = "unsafe { SchemaEnum::new_unsafe(%s, %s, %s, %s, %s, %s) }" % (rs_str(s.name), vb(False), ds, rp, "Some(%s)" % sz if sz else "None", "Some(%s)" % al if al else "None")
        ee = "unsafe { SchemaEnum::new_unsafe(%s, %s, 1, false, None, None) }" % (rs_str(s.name), vb(True))
        return Inst(s, b, ref, e, [k for (_, _, fi) in vi for (_, _, k) in fi], {"dsize": ds, "repr": rp, "size": sz, "align": al, "variants": vi, "enum_build": eb, "enum_erased": ee, "enum_ref": (lambda f: ref(f)[1:])})


class MethodD:
    def __init__(s, name, ret, args): s.name, s.ret, s.args = name, ret, args


class TraitLike(Node):
    """Trait(bool, def) / FnClosure(bool, def) / Future(def, send, sync, unpin)"""
    def __init__(s, k, name, methods, sync=False, send=False): s.kind, s.name, s.methods, s.sync, s.send = k, name, methods, sync, send
    def children(s): return [m.ret for m in s.methods] + [a for m in s.methods for a in m.args]
    def has_trait(s): return True
    def has_future(s): return s.kind == "Future" or Node.has_future(s)
    def desc(s): return "%s(%s%s%s: %s)" % (s.kind, s.name, "+Sync" if s.sync else "", "+Send" if s.send else "", "; ".join("%s(%s)->%s" % (m.name, ",".join(a.desc() for a in m.args), m.ret.desc()) for m in s.methods))
    def inst(s, ctx):
        flag = ctx.leaf("bool") if s.kind != "Future" else None
        fl = [ctx.leaf("bool") for _ in range(3)] if s.kind == "Future" else []
        mi = []
        for m in s.methods:
            rcv = ctx.leaf("u8", "$ < 3")
            asy = ctx.leaf("bool")
            r = m.ret.inst(ctx)
            ai = [a.inst(ctx) for a in m.args]
            mi.append((m, rcv, asy, r, ai))
        def defn(erased, f):
            ms = []
            for (m, rcv, asy, r, ai) in mi:
                rc = "ReceiverType::Shared" if (erased or f < 2) else "receiver_from(%s)" % rcv
                ay = "false" if (erased or f < 2) else asy
                ms.append("AbiMethod { name: %s, info: AbiMethodInfo { return_value: %s, receiver: %s, arguments: vec![%s], async_trait_heuristic: %s } }" % (
                    rs_str(m.name), r.erased if erased else r.build, rc, ", ".join("AbiMethodArgument { schema: %s }" % (a.erased if erased else a.build) for a in ai), ay))
            return "AbiTraitDefinition { name: %s, methods: vec![%s], sync: %s, send: %s }" % (rs_str(s.name), ", ".join(ms), "true" if s.sync else "false", "true" if s.send else "false")
        def mk(erased, f):
            if s.kind == "Future":
                return "Schema::Future(%s, %s, %s, %s)" % (defn(erased, f), fl[0], fl[1], fl[2])
            return "Schema::%s(%s, %s)" % (s.kind, flag, defn(erased, f))
        def ref(f):
            out = []
            if s.kind == "Future":
                out += ["r.put(&[18u8]);", "r.put(&[(%s as u8) | ((%s as u8) << 1) | ((%s as u8) << 2)]);" % (fl[0], fl[1], fl[2])]
            else:
                out += ["r.put(&[%du8]);" % {"Trait": 15, "FnClosure": 11}[s.kind], "r.put(&[%s as u8]);" % flag]
            out += put_str(s.name + ("+Sync" if s.sync else "") + ("+Send" if s.send else "")) + [put_u64(len(s.methods))]
            for (m, rcv, asy, r, ai) in mi:
                out += put_str(m.name) + r.ref(f)
                if f >= 2:
                    out += ["r.put(&[100u8 + %s]);" % rcv, "r.put(&[%s as u8]);" % asy]
                out += [put_u64(len(ai))]
                for a in ai:
                    out += a.ref(f)
            return out
        i = Inst(s, None, ref, mk(True, 0), [], {"flag": flag})
        i.build_f = lambda f: mk(False, f)   # what a reader at format f reconstructs (receiver/async need f >= 2)
        i.build = mk(False, 2)
        return i


# ------------------------------------------------------------------ oracles over two instances of shapes
def wire_eq(a, b):
    """'no wire-layout difference' per the documented comparison (names of structs/fields ignored)"""
    x, y = a.node, b.node
    if x.kind != y.kind: return FALSE
    k = x.kind
    if k == "Primitive": return TRUE if x.p == y.p else FALSE
    if k == "Undefined": return FALSE          # documented: an undefined schema never compares equal
    if k in ("ZeroSize", "Str", "StdIoError", "UninitSlice", "UtcTimestamp"): return TRUE
    if k == "Custom": return TRUE if x.name == y.name else FALSE
    if k == "Recursion": return "(%s == %s)" % (a.data["depth"], b.data["depth"])
    if k in ("Vector", "SchemaOption", "Boxed", "Slice", "Reference"): return wire_eq(a.kids[0], b.kids[0])
    if k == "Array": return AND("(%s == %s)" % (a.data["count"], b.data["count"]), wire_eq(a.kids[0], b.kids[0]))
    if k == "Struct":
        if len(x.fields) != len(y.fields): return FALSE
        return AND(*[wire_eq(ka, kb) for ((_, _, ka), (_, _, kb)) in zip(a.data["fields"], b.data["fields"])])
    if k == "Enum":
        if len(x.variants) != len(y.variants): return FALSE
        parts = ["(%s == %s)" % (a.data["dsize"], b.data["dsize"])]
        for ((va, da, fa), (vb_, db, fb)) in zip(a.data["variants"], b.data["variants"]):
            if va.name != vb_.name or len(va.fields) != len(vb_.fields): return FALSE
            parts.append("(%s == %s)" % (da, db))
            parts += [wire_eq(ka, kb) for ((_, _, ka), (_, _, kb)) in zip(fa, fb)]
        return AND(*parts)
    return None  # trait-like: no oracle (only reflexivity is claimed)


def layout_eq(a, b):
    """'provably identical memory layout' (DESIGN C11): everything known and equal, recursively"""
    x, y = a.node, b.node
    if x.kind != y.kind: return FALSE
    k = x.kind
    if k == "Primitive":
        if x.p != y.p: return FALSE
        if x.p == "string":
            return AND("(%s != 0)" % a.data["layout"], "(%s == %s)" % (a.data["layout"], b.data["layout"]))
        return TRUE
    if k == "ZeroSize": return TRUE
    if k in ("Boxed", "Slice", "Reference"): return layout_eq(a.kids[0], b.kids[0])
    if k == "Vector":
        return AND("(%s != 0)" % a.data["layout"], "(%s == %s)" % (a.data["layout"], b.data["layout"]), layout_eq(a.kids[0], b.kids[0]))
    if k == "Array": return AND("(%s == %s)" % (a.data["count"], b.data["count"]), layout_eq(a.kids[0], b.kids[0]))
    def fields_eq(fa, fb):
        if len(fa) != len(fb): return FALSE
        parts = []
        for ((_, oa, ka), (_, ob, kb)) in zip(fa, fb):
            if oa is None or ob is None: return FALSE
            parts += ["(%s == %s)" % (oa, ob), layout_eq(ka, kb)]
        return AND(*parts)
    if k == "Struct":
        for d in (a.data, b.data):
            if d["size"] is None or d["align"] is None: return FALSE
        return AND("(%s == %s)" % (a.data["size"], b.data["size"]), "(%s == %s)" % (a.data["align"], b.data["align"]), fields_eq(a.data["fields"], b.data["fields"]))
    if k == "Enum":
        for d in (a.data, b.data):
            if d["size"] is None or d["align"] is None: return FALSE
        if len(x.variants) != len(y.variants): return FALSE
        parts = [a.data["repr"], b.data["repr"], "(%s == %s)" % (a.data["size"], b.data["size"]), "(%s == %s)" % (a.data["align"], b.data["align"]),
                 "(%s == %s)" % (a.data["dsize"], b.data["dsize"])]
        for ((va, da, fa), (vb_, db, fb)) in zip(a.data["variants"], b.data["variants"]):
            parts += ["(%s == %s)" % (da, db), fields_eq(fa, fb)]
        return AND(*parts)
    return FALSE   # Option, Custom, Undefined, Recursion, Str, traits, closures, futures, io error, ...


# ------------------------------------------------------------------ the catalogue
def F(name, node, off=True): return FieldD(name, node, off)

def catalogue():
    P = Prim
    L = lambda k: Leaf0(k)
    leaves_q = [P("u8"), P("string"), P("bool"), L("ZeroSize")]
    leaves_all = [P(p) for p in PRIMS] + [L(k) for k in Leaf0.TAG] + [Custom("a"), Custom(""), Recursion()]
    un = ["Vector", "SchemaOption", "Boxed", "Slice", "Reference"]
    S = []   # (tier, name, node)
    add = lambda t, n, node: S.append((t, n, node))
    # 1 node
    for i, n in enumerate(leaves_all):
        add("q" if i % 4 == 0 else "t", "l%02d" % i, n)
    # 2 nodes: unary(leaf), array(leaf)
    k = 0
    for u in un + ["Array"]:
        for lf in leaves_q + [P("i32"), Recursion(), L("Undefined")]:
            node = Array(lf) if u == "Array" else Unary(u, lf)
            add("q" if k % 6 == 0 else "t", "u%02d" % k, node)
            k += 1
    # 3 nodes: unary(unary(leaf))
    k = 0
    for u1 in un + ["Array"]:
        for u2 in un + ["Array"]:
            for lf in (P("u16"), P("string")):
                inner = Array(lf) if u2 == "Array" else Unary(u2, lf)
                node = Array(inner) if u1 == "Array" else Unary(u1, inner)
                add("q" if k % 18 == 0 else "t", "v%02d" % k, node)
                k += 1
    # structs
    add("q", "s_empty", Struct("a", []))
    add("q", "s_1", Struct("a", [F("x", P("u32"))]))
    add("q", "s_2", Struct("", [F("x", P("u8")), F("", P("u16"))]))
    add("q", "s_2_nooff", Struct("a", [F("x", P("u8"), False), F("y", P("u16"))]))
    add("t", "s_nosize", Struct("a", [F("x", P("u8"))], has_size=False))
    add("t", "s_noalign", Struct("a", [F("x", P("u8"))], has_align=False))
    add("q", "s_nested", Struct("a", [F("x", Struct("b", [F("y", P("u64"))]))]))
    add("t", "s_vec", Struct("a", [F("x", Unary("Vector", P("u8"))), F("y", P("bool"))]))
    add("t", "s_opt", Struct("a", [F("x", Unary("SchemaOption", P("u8")))]))
    add("t", "s_3", Struct("a", [F("x", P("u8")), F("y", P("u8")), F("z", P("u16"))]))
    add("t", "s_str", Struct("a", [F("x", P("string")), F("y", L("ZeroSize"))]))
    add("t", "s_arr", Struct("a", [F("x", Array(P("u16")))]))
    # enums
    V_ = VariantD
    add("q", "e_empty", Enum("a", []))
    add("q", "e_unit2", Enum("a", [V_("A", []), V_("B", [])]))
    add("q", "e_data", Enum("a", [V_("A", [F("0", P("u32"))]), V_("B", [])]))
    add("t", "e_data2", Enum("", [V_("A", [F("x", P("u8")), F("y", P("u16"))]), V_("", [F("0", P("string"), False)])]))
    add("t", "e_nosize", Enum("a", [V_("A", [])], has_size=False, has_align=False))
    add("t", "e_nested", Enum("a", [V_("A", [F("0", Struct("b", [F("y", P("u8"))]))])]))
    add("t", "e_vec", Unary("Vector", Enum("a", [V_("A", []), V_("B", [F("0", P("u8"))])])))
    add("t", "s_enum", Struct("a", [F("x", Enum("b", [V_("A", []), V_("B", [])]))]))
    # trait-like
    M = MethodD
    add("q", "t_empty", TraitLike("Trait", "a", []))
    add("q", "t_1m", TraitLike("Trait", "a", [M("f", L("ZeroSize"), [P("u32")])]))
    add("t", "t_sync", TraitLike("Trait", "a", [M("f", P("u8"), [])], sync=True))
    add("t", "t_syncsend", TraitLike("Trait", "ab", [], sync=True, send=True))
    add("q", "t_fn", TraitLike("FnClosure", "a", [M("docall", P("u8"), [P("u8"), P("u16")])]))
    add("q", "t_fut", TraitLike("Future", "a", [M("poll", P("u32"), [])], send=True))
    add("q", "t_fut0", TraitLike("Future", "a", []))
    add("t", "t_2m", TraitLike("Trait", "a", [M("f", P("u8"), [P("u8")]), M("g", L("ZeroSize"), [])]))
    add("t", "t_boxed", Unary("Boxed", TraitLike("Trait", "a", [M("f", P("u8"), [])])))
    return S


def edits(node):
    """single changes that alter the wire layout (C13 list); returns [(label, edited node)]"""
    out = []
    P = Prim
    if isinstance(node, Prim):
        out.append(("prim_kind", P("i8" if node.p != "i8" else "u8")))
        out.append(("wrap_option", Unary("SchemaOption", node)))
        out.append(("wrap_vector", Unary("Vector", node)))
    if isinstance(node, Unary) and node.kind in ("SchemaOption", "Vector"):
        out.append(("unwrap", node.inner))
        if isinstance(node.inner, Prim):
            out.append(("inner_prim_kind", Unary(node.kind, P("i64" if node.inner.p != "i64" else "u64"))))
    if isinstance(node, Array) and isinstance(node.inner, Prim):
        out.append(("inner_prim_kind", Array(P("i64" if node.inner.p != "i64" else "u64"))))
    if isinstance(node, Struct):
        out.append(("add_field", Struct(node.name, node.fields + [FieldD("n", P("u8"), True)])))
        if node.fields:
            out.append(("remove_field", Struct(node.name, node.fields[:-1])))
        if len(node.fields) >= 2 and node.fields[0].node.desc() != node.fields[1].node.desc():
            out.append(("reorder_fields", Struct(node.name, [node.fields[1], node.fields[0]] + node.fields[2:])))
        for i, f in enumerate(node.fields):
            if isinstance(f.node, Prim):
                nf = list(node.fields); nf[i] = FieldD(f.name, P("i8" if f.node.p != "i8" else "u8"), f.has_off)
                out.append(("field%d_prim_kind" % i, Struct(node.name, nf)))
    if isinstance(node, Enum):
        out.append(("add_variant", Enum(node.name, node.variants + [VariantD("N", [])])))
        if node.variants:
            out.append(("remove_variant", Enum(node.name, node.variants[:-1])))
            nv = list(node.variants); nv[0] = VariantD(nv[0].name + "x", nv[0].fields)
            out.append(("variant_name", Enum(node.name, nv)))
        if len(node.variants) >= 2:
            out.append(("reorder_variants", Enum(node.name, [node.variants[1], node.variants[0]] + node.variants[2:])))
        for i, v in enumerate(node.variants):
            if v.fields and isinstance(v.fields[0].node, Prim):
                nv = list(node.variants); nv[i] = VariantD(v.name, [FieldD(v.fields[0].name, P("i8" if v.fields[0].node.p != "i8" else "u8"), v.fields[0].has_off)] + v.fields[1:])
                out.append(("variant%d_field_prim_kind" % i, Enum(node.name, nv)))
    return out


# ------------------------------------------------------------------ emission
HDR = """//! GENERATED by gen/schemas.py — do not edit. Harnesses over the schema shape catalogue S.
#![allow(unused_variables, unused_mut, unused_unsafe, non_snake_case)]
use crate::common::*;
use crate::vt::*;
use savefile::prelude::*;
use savefile::{diff_schema, new_schema_deserializer, SchemaArray, VecOrStringLayout};
use savefile::verif_schema_access::{diff_enum, enum_layout_compatible};

pub fn layout_from(b: u8) -> VecOrStringLayout {
    match b {
        1 => VecOrStringLayout::DataCapacityLength,
        2 => VecOrStringLayout::DataLengthCapacity,
        3 => VecOrStringLayout::CapacityDataLength,
        4 => VecOrStringLayout::LengthDataCapacity,
        5 => VecOrStringLayout::CapacityLengthData,
        6 => VecOrStringLayout::LengthCapacityData,
        7 => VecOrStringLayout::LengthData,
        8 => VecOrStringLayout::DataLength,
        _ => VecOrStringLayout::Unknown,
    }
}
pub fn receiver_from(b: u8) -> ReceiverType {
    match b {
        0 => ReceiverType::Shared,
        1 => ReceiverType::Mut,
        _ => ReceiverType::PinMut,
    }
}
/// Schema::serialize through Serializer::new_raw(f) into a fixed buffer.
pub fn schema_bytes(s: &Schema, f: u32) -> ([u8; 256], usize) {
    let mut buf = [0u8; 256];
    let n;
    {
        let mut cur = std::io::Cursor::new(&mut buf[..]);
        {
            let mut ser = Serializer::<Vec<u8>>::new_raw(&mut cur, f);
            s.serialize(&mut ser).unwrap();
        }
        n = cur.position() as usize;
    }
    (buf, n)
}
/// SchemaEnum::serialize / deserialize on bare values (R17: a Schema::Enum wrapper defeats CBMC).
pub fn enum_bytes(e: &SchemaEnum, f: u32) -> ([u8; 256], usize) {
    let mut buf = [0u8; 256];
    let n;
    {
        let mut cur = std::io::Cursor::new(&mut buf[..]);
        {
            let mut ser = Serializer::<Vec<u8>>::new_raw(&mut cur, f);
            e.serialize(&mut ser).unwrap();
        }
        n = cur.position() as usize;
    }
    (buf, n)
}
pub fn enum_from(bytes: &[u8], f: u16) -> Result<(SchemaEnum, usize), SavefileError> {
    let mut rd: &[u8] = bytes;
    let s = {
        let mut de = new_schema_deserializer(&mut rd, f);
        SchemaEnum::deserialize(&mut de)?
    };
    Ok((s, rd.len()))
}
pub fn schema_from(bytes: &[u8], f: u16) -> Result<(Schema, usize), SavefileError> {
    let mut rd: &[u8] = bytes;
    let s = {
        let mut de = new_schema_deserializer(&mut rd, f);
        Schema::deserialize(&mut de)?
    };
    Ok((s, rd.len()))
}
"""

def unwind_for(node):
    """loops: string byte loops (reader stub, comparator, memcmp), field / variant / method loops"""
    m = 3
    for c in walk(node):
        strs, counts = [], []
        if isinstance(c, Struct): strs += [c.name] + [f.name for f in c.fields]; counts.append(len(c.fields))
        if isinstance(c, Enum):
            strs += [c.name] + [v.name for v in c.variants] + [f.name for v in c.variants for f in v.fields]
            counts += [len(c.variants)] + [len(v.fields) for v in c.variants]
        if isinstance(c, Custom): strs.append(c.name)
        if isinstance(c, TraitLike):
            strs += [c.name + ("+Sync" if c.sync else "") + ("+Send" if c.send else "")] + [m_.name for m_ in c.methods]
            counts += [len(c.methods)] + [len(m_.args) for m_ in c.methods]
        m = max([m] + [len(x) for x in strs] + counts)
    return m + 2

def walk(n):
    yield n
    for c in n.children():
        yield from walk(c)

def depth(n):
    return 1 + max([0] + [depth(c) for c in n.children()])

def heavy(node):
    """shapes CBMC does not finish within 10 min here (measured; see DESIGN R14): any Enum node
    (values of Schema::Enum are not constant-propagated: even a fully concrete layout_compatible of
    two empty enums does not finish in 100 s while the struct analogue takes 1 s), chains of depth
    >= 3, structs nested in structs."""
    if any(isinstance(c, Enum) for c in walk(node)): return True
    if depth(node) >= 3: return True
    return False

def tier_of(kind, tier, name, node):
    if heavy(node): return "x"
    if kind in ("c13s", "c13z", "c06s"):
        if isinstance(node, TraitLike) and len(node.methods) >= 2 and kind != "c13z": return "x"   # > 30 min
        if isinstance(node, TraitLike) and node.methods: return "t"
        if isinstance(node, Struct) and node.fields: return "t"
    if kind == "c13d" and isinstance(node, TraitLike) and node.methods: return "x"   # diff of trait definitions with methods: > 10 min
    if kind == "c06s" and isinstance(node, TraitLike) and len(node.methods) >= 2: return "x"
    return tier

def emit():
    S = catalogue()
    out = [HDR.replace("[u8; 256]", "[u8; REFCAP2]").replace("[0u8; 256]", "[0u8; REFCAP2]")]
    out.append("pub const REFCAP2: usize = 256;\npub struct RefBuf2 { pub b: [u8; REFCAP2], pub n: usize }\nimpl RefBuf2 {\n    pub fn new() -> RefBuf2 { RefBuf2 { b: [0u8; REFCAP2], n: 0 } }\n    #[inline(always)]\n    pub fn put(&mut self, bytes: &[u8]) { let l = bytes.len(); self.b[self.n..self.n + l].copy_from_slice(bytes); self.n += l; }\n}\n")
    cat = []
    mods = {m: {"q": [], "t": [], "x": []} for m in ("c13s", "c13z", "c13d", "c11l", "c06s", "c13e", "c11e")}
    for (tier, name, node) in S:
        if isinstance(node, Enum) and not any(isinstance(c, (Enum, Struct)) for ch in node.children() for c in walk(ch)):
            uwe = unwind_for(node)
            for f in (1, 2):
                ctx = Ctx("a"); i = node.inst(ctx)
                body = ctx.decls() + ["let e: SchemaEnum = %s;" % i.data["enum_build"], "let mut r = RefBuf2::new();"] + i.data["enum_ref"](f)
                body += ["let (buf, n) = enum_bytes(&e, %d);" % f,
                         'assert!(n == r.n, "C13: enum schema node length differs from the reference layout");',
                         "let i: usize = kani::any(); kani::assume(i < r.n);",
                         'assert!(buf[i] == r.b[i], "C13: enum schema node byte differs from the reference layout");',
                         "let (e2, left) = enum_from(&r.b[..r.n], %d).unwrap();" % f,
                         'assert!(left == 0, "C13: enum schema reader did not consume the whole node");',
                         'assert!(crate::scmp::enum_same(&e2, &e), "C13: enum schema node read back differs from the one written");',
                         "std::mem::forget(e); std::mem::forget(e2);", 'kani::cover!(true, "reached end");']
                mods["c13e"]["t" if (f == 1 and tier == "q") else tier].append("kproof!(%s_f%d, %d, {\n        %s\n    });" % (name, f, uwe, "\n        ".join(body)))
            ctx = Ctx("a"); i = node.inst(ctx)
            body = ctx.decls() + ["let mut r = RefBuf2::new();"] + i.data["enum_ref"](0)
            body += ["let (e2, left) = enum_from(&r.b[..r.n], 0).unwrap();", 'assert!(left == 0, "C13: format-0 enum schema reader did not consume the whole node");',
                     "let expect: SchemaEnum = %s;" % i.data["enum_erased"],
                     'assert!(crate::scmp::enum_same(&e2, &expect), "C13: format-0 enum schema node decodes to a different schema");',
                     "std::mem::forget(e2); std::mem::forget(expect);", 'kani::cover!(true, "reached end");']
            mods["c13e"][tier].append("kproof!(%s_f0, %d, {\n        %s\n    });" % (name, uwe, "\n        ".join(body)))
            for f in (0, 2):
                ctx = Ctx("a"); i = node.inst(ctx)
                body = ctx.decls(concrete=True) + ["let mut r = RefBuf2::new();"] + i.data["enum_ref"](f)
                body += ["let (e2, left) = enum_from(&r.b[..r.n], %d).unwrap();" % f, 'assert!(left == 0, "C13: enum schema reader did not consume the whole node (concrete instance)");',
                         "let expect: SchemaEnum = %s;" % (i.data["enum_erased"] if f == 0 else i.data["enum_build"]),
                         'assert!(crate::scmp::enum_same(&e2, &expect), "C13: enum schema node decodes to a different schema (concrete instance)");',
                         "std::mem::forget(e2); std::mem::forget(expect);", 'kani::cover!(true, "reached end");']
                mods["c13e"][tier].append("kproof!(%s_f%dc, %d, {\n        %s\n    });" % (name, f, uwe, "\n        ".join(body)))
            pairs = [("pair", node)] + [("edit_" + l, en) for (l, en) in edits(node)]
            for (label, other) in pairs:
                ca, cb = Ctx("a"), Ctx("b")
                ia, ib = node.inst(ca), other.inst(cb)
                w, le = wire_eq(ia, ib), layout_eq(ia, ib)
                body = ca.decls() + cb.decls() + ["let ea: SchemaEnum = %s;" % ia.data["enum_build"], "let eb: SchemaEnum = %s;" % ib.data["enum_build"]]
                body += ["let d1 = diff_enum(&ea, &eb, String::new());", "let d2 = diff_enum(&eb, &ea, String::new());", "let expect_same: bool = %s;" % w,
                         'assert!(d1.is_none() == expect_same, "C13: enum comparison verdict differs from the wire-layout oracle (memory, file)");',
                         'assert!(d2.is_none() == expect_same, "C13: enum comparison verdict differs from the wire-layout oracle (file, memory)");',
                         "std::mem::forget(d1); std::mem::forget(d2); std::mem::forget(ea); std::mem::forget(eb);", 'kani::cover!(true, "reached end");']
                mods["c13e"][tier].append("kproof!(%s_diff_%s, %d, {\n        %s\n    });" % (name, label, uwe, "\n        ".join(body)))
                body = ca.decls() + cb.decls() + ["let ea: SchemaEnum = %s;" % ia.data["enum_build"], "let eb: SchemaEnum = %s;" % ib.data["enum_build"]]
                body += ["let c1 = enum_layout_compatible(&ea, &eb);", "let c2 = enum_layout_compatible(&eb, &ea);", "let identical: bool = %s;" % le,
                         'assert!(!c1 || identical, "C11: enum layout_compatible accepts layouts that are not provably identical");',
                         'assert!(!c2 || identical, "C11: enum layout_compatible accepts layouts that are not provably identical (swapped)");']
                if label == "pair" and le != FALSE:
                    body.append('kani::cover!(c1, "some assignment of the leaves is accepted as compatible");')
                body += ["std::mem::forget(ea); std::mem::forget(eb);", 'kani::cover!(true, "reached end");']
                mods["c11e"][tier].append("kproof!(%s_lc_%s, %d, {\n        %s\n    });" % (name, label, uwe, "\n        ".join(body)))
        cat.append({"shape": name, "tier": ("x (out of reach)" if heavy(node) else tier), "desc": node.desc(), "nodes": node.size()})
        uw = unwind_for(node)
        # ---- C13 (a)+(b): write == reference bytes, read(reference) == schema, f in {1,2}
        for f in (1, 2):
            ctx = Ctx("a")
            i = node.inst(ctx)
            body = ctx.decls()
            body.append("let s: Schema = %s;" % i_build(node, i, 2))
            body.append("let mut r = RefBuf2::new();")
            body += i.ref(f)
            body.append("let (buf, n) = schema_bytes(&s, %d);" % f)
            body.append('assert!(n == r.n, "C13: schema section length differs from the reference layout");')
            body.append("let i: usize = kani::any(); kani::assume(i < r.n);")
            body.append('assert!(buf[i] == r.b[i], "C13: schema section byte differs from the reference layout");')
            body.append("let (s2, left) = schema_from(&r.b[..r.n], %d).unwrap();" % f)
            body.append('assert!(left == 0, "C13: schema reader did not consume the whole section");')
            body.append("let expect: Schema = %s;" % i_build(node, i, f))
            body.append('assert!(crate::scmp::schema_same(&s2, &expect), "C13: schema read back differs from the schema written");')
            body += ["std::mem::forget(s); std::mem::forget(s2); std::mem::forget(expect);", 'kani::cover!(true, "reached end");']
            mods["c13s"][tier_of("c13s", tier, name, node)].append("kproof!(%s_f%d, %d, {\n        %s\n    });" % (name, f, uw, "\n        ".join(body)))
        # ---- C13 format 0: reference bytes in the original layout decode to the erased schema
        ctx = Ctx("a")
        i = node.inst(ctx)
        body = ctx.decls() + ["let mut r = RefBuf2::new();"] + i.ref(0)
        body.append("let (s2, left) = schema_from(&r.b[..r.n], 0).unwrap();")
        body.append('assert!(left == 0, "C13: format-0 schema reader did not consume the whole section");')
        body.append("let expect: Schema = %s;" % i.erased)
        body.append('assert!(crate::scmp::schema_same(&s2, &expect), "C13: format-0 schema section decodes to a different schema");')
        body += ["std::mem::forget(s2); std::mem::forget(expect);", 'kani::cover!(true, "reached end");']
        mods["c13z"][tier_of("c13z", tier, name, node)].append("kproof!(%s_f0, %d, {\n        %s\n    });" % (name, uw, "\n        ".join(body)))
        if isinstance(node, (Struct, TraitLike)) or node.size() >= 2:
            ctx = Ctx("a")
            i = node.inst(ctx)
            body = ctx.decls(concrete=True) + ["let mut r = RefBuf2::new();"] + i.ref(0)
            body.append("let (s2, left) = schema_from(&r.b[..r.n], 0).unwrap();")
            body.append('assert!(left == 0, "C13: format-0 schema reader did not consume the whole section (concrete instance)");')
            body.append("let expect: Schema = %s;" % i.erased)
            body.append('assert!(crate::scmp::schema_same(&s2, &expect), "C13: format-0 schema section decodes to a different schema (concrete instance)");')
            body += ["std::mem::forget(s2); std::mem::forget(expect);", 'kani::cover!(true, "reached end");']
            mods["c13z"][tier_of("c13z", tier, name, node)].append("kproof!(%s_f0c, %d, {\n        %s\n    });" % (name, uw, "\n        ".join(body)))
        # ---- C13 diff: same shape, independent leaves: diff is None <=> oracle (non-trait shapes); traits: reflexive only
        ca, cb = Ctx("a"), Ctx("b")
        ia, ib = node.inst(ca), node.inst(cb)
        w = wire_eq(ia, ib) if not node.has_trait() else None
        rp = "true" if node.has_future() else "false"
        if w is not None:
            body = ca.decls() + cb.decls()
            body += ["let sa: Schema = %s;" % ia.build, "let sb: Schema = %s;" % ib.build]
            body.append("let d = diff_schema(&sa, &sb, String::new(), %s);" % rp)
            body.append("let expect_same: bool = %s;" % w)
            body.append('assert!(d.is_none() == expect_same, "C13: diff_schema verdict differs from the wire-layout oracle");')
            body += ["std::mem::forget(d); std::mem::forget(sa); std::mem::forget(sb);", 'kani::cover!(true, "reached end");']
            mods["c13d"][tier_of("c13d", tier, name, node)].append("kproof!(%s_pair, %d, {\n        %s\n    });" % (name, uw, "\n        ".join(body)))
        else:
            body = ca.decls() + ["let sa: Schema = %s;" % ia.build, "let sb: Schema = sa.clone();"]
            body.append("let d = diff_schema(&sa, &sb, String::new(), %s);" % rp)
            body.append('assert!(d.is_none(), "C13: diff_schema reports a difference between a schema and itself");')
            body += ["std::mem::forget(d); std::mem::forget(sa); std::mem::forget(sb);", 'kani::cover!(true, "reached end");']
            mods["c13d"][tier_of("c13d", tier, name, node)].append("kproof!(%s_refl, %d, {\n        %s\n    });" % (name, uw, "\n        ".join(body)))
        # ---- C13 single-change family (both argument orders)
        if not node.has_trait():
            for (label, en) in edits(node):
                ca, cb = Ctx("a"), Ctx("b")
                ia, ib = node.inst(ca), en.inst(cb)
                w = wire_eq(ia, ib)
                body = ca.decls() + cb.decls()
                body += ["let sa: Schema = %s;" % ia.build, "let sb: Schema = %s;" % ib.build]
                body.append("let d1 = diff_schema(&sa, &sb, String::new(), false);")
                body.append("let d2 = diff_schema(&sb, &sa, String::new(), false);")
                body.append("let expect_same: bool = %s;" % w)
                body.append('assert!(d1.is_none() == expect_same, "C13: a wire-layout change is not reported by diff_schema(memory, file)");')
                body.append('assert!(d2.is_none() == expect_same, "C13: a wire-layout change is not reported by diff_schema(file, memory)");')
                body += ["std::mem::forget(d1); std::mem::forget(d2); std::mem::forget(sa); std::mem::forget(sb);", 'kani::cover!(true, "reached end");']
                mods["c13d"][tier_of("c13d", tier, name, node)].append("kproof!(%s_edit_%s, %d, {\n        %s\n    });" % (name, label, uw, "\n        ".join(body)))
                # C11: an edited shape is never layout compatible unless the oracle says so
                le = layout_eq(ia, ib)
                body = ca.decls() + cb.decls()
                body += ["let sa: Schema = %s;" % ia.build, "let sb: Schema = %s;" % ib.build]
                body.append("let c1 = sa.layout_compatible(&sb);")
                body.append("let c2 = sb.layout_compatible(&sa);")
                body.append("let identical: bool = %s;" % le)
                body.append('assert!(!c1 || identical, "C11: layout_compatible accepts layouts that are not provably identical");')
                body.append('assert!(!c2 || identical, "C11: layout_compatible accepts layouts that are not provably identical (swapped)");')
                body += ["std::mem::forget(sa); std::mem::forget(sb);", 'kani::cover!(true, "reached end");']
                mods["c11l"][tier_of("c11l", tier, name, node)].append("kproof!(%s_edit_%s, %d, {\n        %s\n    });" % (name, label, uw, "\n        ".join(body)))
        # ---- C11: same shape, independent leaves: compatible => oracle
        ca, cb = Ctx("a"), Ctx("b")
        ia, ib = node.inst(ca), node.inst(cb)
        le = layout_eq(ia, ib)
        body = ca.decls() + cb.decls()
        body += ["let sa: Schema = %s;" % ia.build, "let sb: Schema = %s;" % ib.build]
        body.append("let c = sa.layout_compatible(&sb);")
        body.append("let identical: bool = %s;" % le)
        body.append('assert!(!c || identical, "C11: layout_compatible accepts layouts that are not provably identical");')
        if le not in (FALSE,):
            body.append('kani::cover!(c, "some assignment of the leaves is accepted as compatible");')
        body += ["std::mem::forget(sa); std::mem::forget(sb);", 'kani::cover!(true, "reached end");']
        mods["c11l"][tier_of("c11l", tier, name, node)].append("kproof!(%s_pair, %d, {\n        %s\n    });" % (name, uw, "\n        ".join(body)))
        # ---- C06: numeric payload bytes of a schema section symbolic (structure bytes concrete): reader never panics
        for f in (2,):
            ctx = Ctx("a")
            i = node.inst(ctx)
            # leaves unconstrained here (layout bytes > 8, receiver bytes arbitrary, bools as arbitrary bytes)
            decl = []
            for (n_, ty, c) in ctx.leaves:
                if ty == "bool":
                    decl.append("let %s: u8 = kani::any();" % n_)
                elif c and "< 3" in c:
                    decl.append("let %s: u8 = kani::any(); kani::assume(%s <= 155);" % (n_, n_))
                else:
                    decl.append("let %s: %s = kani::any();" % (n_, ty))
            body = decl + ["let mut r = RefBuf2::new();"] + i.ref(f)
            body.append("match schema_from(&r.b[..r.n], %d) {" % f)
            body.append("    Ok((s2, left)) => { assert!(left <= r.n); std::mem::forget(s2); }")
            body.append("    Err(e) => std::mem::forget(e),")
            body.append("}")
            body.append('kani::cover!(true, "reached end");')
            mods["c06s"][tier_of("c06s", tier, name, node)].append("kproof!(%s_f%d, %d, {\n        %s\n    });" % (name, f, uw, "\n        ".join(body)))
    for m, tiers in mods.items():
        out.append("pub mod %s {\n    use super::*;" % m)
        for t, hs in tiers.items():
            out.append("    pub mod %s {\n    use super::*;\n    %s\n    }" % (t, "\n    ".join(hs)))
        out.append("}")
    path = os.path.join(V, "kani", "src", "sgen.rs")
    txt = "\n".join(out) + "\n"
    if not os.path.exists(path) or open(path).read() != txt:
        open(path, "w").write(txt)
    json.dump(cat, open(os.path.join(V, "gen", "catalogue_S.json"), "w"), indent=0)
    return len(S), {m: {t: len(h) for t, h in ts.items()} for m, ts in mods.items()}


def i_build(node, inst, f):
    """constructor expression as reconstructed by a reader of format f (f = 2: everything)"""
    return rebuild(node, inst, f)

def build_at(node, inst, f):
    return rebuild(node, inst, f)

def rebuild(node, inst, f):
    # only trait-like nodes depend on f (receiver / async flags exist from format 2 on)
    if isinstance(node, TraitLike):
        return inst.build_f(f)
    if f >= 2 or not node.has_trait():
        return inst.build
    # a trait nested below: rebuild textually
    if isinstance(node, Unary):
        k = inst.kids[0]
        inner = rebuild(node.inner, k, f)
        if node.kind == "Vector":
            return "Schema::Vector(Box::new(%s), layout_from(%s))" % (inner, inst.data["layout"])
        return "Schema::%s(Box::new(%s))" % (node.kind, inner)
    raise NotImplementedError("trait below %s" % node.kind)


if __name__ == "__main__":
    print(emit())
