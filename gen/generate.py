#!/usr/bin/env python3
"""Generates the 'program' catalogues of the harness crates (DESIGN §4):
   kani/src/dtypes.rs  — D: derived struct/enum definitions + reference codec (VT impl) + catalogue macros
The output is a pure function of this file (no randomness): regenerated before every check."""
import argparse, itertools, os, sys, json

V = os.path.dirname(os.path.dirname(os.path.abspath(__file__)))

# ------------------------------------------------------------------ D: derived definitions
# leaf field types: (rust type, has_seq) ; has_seq => shape length matters
LEAF = {
    "u8": False, "i8": False, "u16": False, "u32": False, "i32": False, "u64": False, "bool": False, "char": False,
    "f32": False, "usize": False, "(u8, u8)": False, "(u8, u16)": False, "[u16; 2]": False, "[u8; 3]": False,
    "Option<u8>": False, "String": True, "Vec<u8>": True, "Vec<u16>": True, "Option<String>": True, "()": False,
}

class Struct:
    def __init__(s, name, fields, kind="named", repr_=None, generic=None, tier="t", note=""):
        s.name, s.fields, s.kind, s.repr, s.generic, s.tier, s.note = name, fields, kind, repr_, generic, tier, note
    def has_seq(s, D):
        return any(has_seq(t, D) for t in s.fields)

class Enum:
    # variants: list of (name, kind, fields, explicit_discr or None); kind in unit/tuple/struct
    def __init__(s, name, variants, repr_=None, tier="t", note="", many=0):
        s.name, s.variants, s.repr, s.tier, s.note, s.many = name, variants, repr_, tier, note, many
    def has_seq(s, D):
        return any(has_seq(t, D) for v in s.variants for t in v[2])
    def dsize(s):
        if s.repr:
            for r in s.repr.split(","):
                r = r.strip()
                if r in ("u8", "i8"): return 1
                if r in ("u16", "i16"): return 2
                if r in ("u32", "i32"): return 4
        n = len(s.variants) + s.many
        return 1 if n <= 256 else 2 if n <= 65536 else 4

def has_seq(t, D):
    t = t.lstrip("!")
    if t in LEAF: return LEAF[t]
    base = t.split("<")[0]
    if base in D: return D[base].has_seq(D)
    if t.startswith("Vec<") or t.startswith("Option<") or t.startswith("Box<") or t.startswith("["):
        inner = t[t.index("<") + 1:-1] if "<" in t else t[1:t.index(";")]
        return t.startswith("Vec<") or has_seq(inner, D)
    if t == "T": return False
    return False

def is_var(t, D):
    """value-dependent encoded size (symbolic variant / presence => symbolic offsets for what follows)"""
    t = t.lstrip("!")
    if t.startswith("Option<") or t.startswith("Result<"): return True
    base = t.split("<")[0]
    if base in D:
        d = D[base]
        if isinstance(d, Enum):
            return any(len(v[2]) > 0 for v in d.variants)
        return any(is_var(f, D) for f in d.fields)
    if t.startswith("(") or t.startswith("["): return "Option<" in t
    return False

def catalogue():
    D = []
    q = lambda *a, **k: D.append(Struct(*a, tier="q", **k))
    t = lambda *a, **k: D.append(Struct(*a, tier="t", **k))
    # --- quick: one entry per rule of implement_reprc_struct / implement_fields_serialize / derive
    q("SqPackedC", ["u32", "u32"], repr_="C", note="packed: whole-struct raw write")
    q("SqPaddedC", ["u8", "u32"], repr_="C", note="padding after f0: not packed; deferred regions of differing alignment")
    q("SqTailPadC", ["u32", "u8"], repr_="C", note="tail padding: not packed")
    q("SqRust", ["u8", "u32", "u16"], note="repr(Rust): field reordering; deferred same-alignment regions never contiguous")
    q("SqSameAlign", ["u16", "u16", "u8", "u8"], repr_="C", note="two deferred regions (align 2 then align 1), packed overall")
    q("SqMixed", ["u8", "String", "u8"], note="non-packed field in the middle flushes deferred region")
    q("SqTuple", ["u16", "u16"], kind="tuple", repr_="C", note="tuple struct, packed")
    q("SqUnit", [], kind="unit", note="unit struct")
    q("SqBoolChar", ["bool", "char"], repr_="C", note="bool+char: 1+3pad+4: not packed")
    q("SqNested", ["SqPackedC", "u64"], repr_="C", note="nested packed struct inside packed struct")
    q("SqNestedPad", ["SqPaddedC", "u32"], repr_="C", note="nested non-packed struct")
    q("SqOpt", ["Option<u8>", "u16"], note="option field")
    q("SqVec", ["Vec<u16>", "u8"], note="vec field")
    q("SqGeneric", ["T", "u32"], repr_="C", generic="u32", note="generic struct instantiated at u32 (packed)")
    q("SqUsize", ["usize", "u64"], repr_="C", note="usize is never packed")
    q("SqArr", ["[u16; 2]", "u32"], repr_="C", note="array field, packed")
    q("SqF32", ["f32", "u32"], repr_="C", note="float field")
    q("SqIgnoreMid", ["u8", "!u32", "u16", "u64"], kind="tuple", note="tuple struct with a #[savefile_ignore] field before serialized fields")
    q("SqIgnoreNamed", ["u16", "!u8", "u16"], repr_="C", note="named struct with an ignored field in the middle")
    t("StIgnoreFirst", ["!u64", "u8", "u32"], note="ignored first field")
    t("StIgnoreLast", ["u32", "u32", "!u32"], repr_="C", note="ignored last field (would be packed without it)")
    q("SqOne", ["u64"], note="single field repr(Rust): offset 0 and full size => packed")
    q("SqOverAligned1", ["u32"], repr_="C, align(8)", note="over-aligned single field: trailing padding, must not be packed")
    q("SqOverAligned2", ["u16", "u16"], repr_="C, align(8)", note="over-aligned two fields: trailing padding")
    t("StOverAlignedRust", ["u8"], repr_="align(4)", note="repr(align(4)) newtype")
    t("StOverAligned3", ["u32", "u32", "u32"], repr_="C, align(16)", note="12 bytes of fields in 16")
    # --- thorough: all ordered pairs over an alphabet, alternating repr, + triples
    alpha = ["u8", "u16", "u32", "u64", "bool", "char", "(u8, u8)", "[u8; 3]", "usize", "String", "Option<u8>"]
    k = 0
    for a, b in itertools.product(alpha, alpha):
        k += 1
        t("Sp%03d" % k, [a, b], repr_=("C" if k % 2 else None), kind=("named" if k % 3 else "tuple"))
    tri = [["u8", "u8", "u16"], ["u8", "u16", "u8"], ["u32", "u8", "u8"], ["u16", "u8", "u8", "u32"], ["u8", "u32", "u8", "u32"],
           ["bool", "bool", "u16", "u32"], ["u64", "u32", "u16", "u8"], ["u8", "String", "u16", "u16"], ["Vec<u8>", "u32", "u32"],
           ["(u8, u16)", "u8"], ["u16", "(u8, u16)"], ["[u16; 2]", "u16", "u16"], ["u32", "Option<String>", "u32"], ["()", "u8"]]
    for i, f in enumerate(tri):
        t("St%02d" % i, f, repr_=("C" if i % 2 == 0 else None))
    Dd = {d.name: d for d in D}
    E = []
    eq = lambda *a, **k: E.append(Enum(*a, tier="q", **k))
    et = lambda *a, **k: E.append(Enum(*a, tier="t", **k))
    U = lambda n, d=None: (n, "unit", [], d)
    T = lambda n, *f: (n, "tuple", list(f), None)
    S = lambda n, *f: (n, "struct", list(f), None)
    eq("EqUnit", [U("A"), U("B"), U("C")], note="no repr: 1 byte discriminant, never packed")
    eq("EqU8", [U("A"), U("B")], repr_="u8", note="repr(u8) unit-only: packed")
    eq("EqU16", [U("A"), U("B"), U("C")], repr_="u16", note="2-byte discriminant")
    eq("EqU32", [U("A"), U("B")], repr_="u32", note="4-byte discriminant")
    eq("EqData", [U("A"), T("B", "u32"), S("C", "u8", "u16")], note="data variants, no repr")
    eq("EqDataU8C", [T("A", "u8"), T("B", "u8")], repr_="u8, C", note="repr(u8,C) with 1-byte payloads: packed layout candidate")
    eq("EqDataU32", [T("A", "u32"), S("B", "u16", "u16")], repr_="u32", note="repr(u32) data enum: tag 4 + 4: packed candidate")
    eq("EqDataPad", [T("A", "u8"), T("B", "u32")], repr_="u8", note="variant with padding: not packed")
    eq("EqStr", [T("A", "String"), U("B")], note="string payload")
    # tier "x": generated but in no tier — a 256-arm derive expansion costs 15-45 min and up to 40 GB of CBMC per harness
    E.append(Enum("EqMany257", [U("A"), U("B")], many=255, tier="x", note="257 variants without repr: 2-byte discriminant"))
    E.append(Enum("EqMany256", [U("A"), U("B")], many=254, tier="x", note="exactly 256 variants without repr: still a 1-byte discriminant"))
    eq("EqExplicit", [U("A", 5), U("B", 7)], repr_="u8", note="explicit discriminants: wire = variant index, image = discriminant value")
    eq("EqLaterPad", [T("A", "u8", "u16", "u16", "u16"), T("B", "u16", "u16", "u16")], repr_="u8", note="padding after the discriminant only in a later variant")
    et("EtLaterPad32", [T("A", "u32", "u32"), T("B", "u32", "u16")], repr_="u32", note="tail padding only in a later variant")
    et("EtMidPad", [T("A", "u8", "u8", "u16"), T("B", "u8", "u16")], repr_="u8", note="padding between fields of a later variant")
    et("EtU8Data2", [T("A", "u8", "u8"), T("B", "u16")], repr_="u8", note="")
    et("EtU16Data", [T("A", "u16"), S("B", "u8", "u8")], repr_="u16", note="")
    et("EtI8", [U("A"), U("B"), U("C")], repr_="i8", note="")
    et("EtNested", [T("A", "EqU8"), T("B", "SqPackedC")], note="nested derived types")
    et("EtOpt", [T("A", "Option<u8>"), U("B")], repr_="u8", note="")
    eq("EqExplicitExpr", [U("A", "1 << 1"), U("B", "1 << 2"), U("C")], repr_="u8", note="explicit discriminants given as expressions (not integer literals)")
    et("EtExplicitNeg", [U("A", "-1"), U("B", "1")], repr_="i8", note="negative explicit discriminant")
    et("EtExplicit16", [U("A", 1), U("B", 2), U("C", 300)], repr_="u16", note="explicit discriminants u16")
    et("EtExplicitDense", [U("A", 0), U("B", 1)], repr_="u8", note="explicit discriminants equal to indices (harmless)")
    et("EtVec", [T("A", "Vec<u8>"), T("B", "u8")], note="")
    et("EtU32C", [T("A", "u32"), T("B", "u32", "u32")], repr_="u32, C", note="")
    Ed = {e.name: e for e in E}
    # structs that embed enums
    D.append(Struct("SqWithEnum", ["EqU8", "u8"], repr_="C", tier="q", note="packed struct holding repr(u8) enum"))
    D.append(Struct("SqWithExplicit", ["EqExplicit", "u8"], repr_="C", tier="q", note="packed struct holding explicit-discriminant enum"))
    D.append(Struct("SqWithExplicitExpr", ["EqExplicitExpr", "u8"], repr_="C", tier="q", note="packed struct holding an enum whose discriminants are expressions"))
    D.append(Struct("StWithExplicitNeg", ["u8", "EtExplicitNeg"], repr_="C", tier="t", note=""))
    D.append(Struct("StWithData", ["EqDataU32", "u32"], repr_="C", tier="t", note=""))
    return D, E

def ty(t, d):
    return t

def emit_struct(s, out, allD):
    attrs = "#[derive(Savefile, Debug)]\n"
    if s.repr: attrs += "#[repr(%s)]\n" % s.repr
    gen = "<T>" if s.generic else ""
    ign = [f.startswith("!") for f in s.fields]
    raw = [f.lstrip("!") for f in s.fields]
    ia = lambda i: "#[savefile_ignore] " if ign[i] else ""
    if s.kind == "unit":
        out.append(attrs + "pub struct %s;" % s.name)
    elif s.kind == "tuple":
        out.append(attrs + "pub struct %s%s(%s);" % (s.name, gen, ", ".join(ia(i) + "pub " + f for i, f in enumerate(raw))))
    else:
        out.append(attrs + "pub struct %s%s { %s }" % (s.name, gen, ", ".join("%spub f%d: %s" % (ia(i), i, f) for i, f in enumerate(raw))))
    acc = (lambda i: "self.%d" % i) if s.kind == "tuple" else (lambda i: "self.f%d" % i)
    oacc = (lambda i: "o.%d" % i) if s.kind == "tuple" else (lambda i: "o.f%d" % i)
    inst = "%s<%s>" % (s.name, s.generic) if s.generic else s.name
    ft = [(s.generic if f == "T" else f) for f in raw]
    live = [i for i in range(len(ft)) if not ign[i]]
    if s.kind == "unit":
        ctor = s.name
    elif s.kind == "tuple":
        ctor = "%s(%s)" % (s.name, ", ".join("<%s as VT>::any()" % f for f in ft))
    else:
        ctor = "%s { %s }" % (s.name, ", ".join("f%d: <%s as VT>::any()" % (i, f) for i, f in enumerate(ft)))
    fixed = "match (%s) { (%s) => Some(0 %s), _ => None }" % (
        "".join("<%s as VT>::FIXED, " % ft[i] for i in live), "".join("Some(a%d), " % i for i in live),
        "".join("+ a%d " % i for i in live)) if live else "Some(0)"
    out.append("impl VT for %s {\n    const FIXED: Option<usize> = %s;\n    fn any() -> Self { %s }\n    fn enc(&self, out: &mut RefBuf) { %s }\n    fn same(&self, o: &Self) -> bool { %s }\n    fn valid(&self) -> bool { %s }\n    fn wire_len(&self) -> u128 { %s }\n}" % (
        inst, fixed, ctor, " ".join("%s.enc(out);" % acc(i) for i in live) or "let _ = out;",
        " && ".join("%s.same(&%s)" % (acc(i), oacc(i)) for i in live) or "let _ = o; true",
        " && ".join("%s.valid()" % acc(i) for i in live) or "true",
        " + ".join("%s.wire_len()" % acc(i) for i in live) or "0"))
    return inst

def emit_enum(e, out):
    attrs = "#[derive(Savefile, Debug)]\n"
    if e.repr: attrs += "#[repr(%s)]\n" % e.repr
    vs = []
    for (n, k, f, d) in e.variants:
        if k == "unit": vs.append(n + (" = %s" % d if d is not None else ""))
        elif k == "tuple": vs.append("%s(%s)" % (n, ", ".join(f)))
        else: vs.append("%s { %s }" % (n, ", ".join("g%d: %s" % (i, t) for i, t in enumerate(f))))
    for i in range(e.many):
        vs.append("Z%d" % i)
    out.append(attrs + "pub enum %s { %s }" % (e.name, ", ".join(vs)))
    ds = e.dsize()
    it = {1: "u8", 2: "u16", 4: "u32"}[ds]
    nv = len(e.variants)
    anyarms, encarms, samearms, validarms, wirearms = [], [], [], [], []
    discr, cur = [], 0
    for (n, k, f, d) in e.variants:
        if d is not None: cur = eval(str(d))
        discr.append(cur); cur += 1
    for i in range(e.many):
        discr.append(cur); cur += 1
    for idx, (n, k, f, d) in enumerate(e.variants):
        pat = "%d" % idx if idx < nv - 1 else "_"
        if k == "unit":
            anyarms.append("%s => %s::%s" % (pat, e.name, n))
            encarms.append("%s::%s => { out.put(&(%d as %s).to_le_bytes()); }" % (e.name, n, idx, it))
            samearms.append("(%s::%s, %s::%s) => true" % (e.name, n, e.name, n))
            validarms.append("%s::%s => true" % (e.name, n))
            wirearms.append("%s::%s => %d" % (e.name, n, ds))
        elif k == "tuple":
            validarms.append("%s::%s(%s) => %s" % (e.name, n, ", ".join("x%d" % i for i in range(len(f))), " && ".join("x%d.valid()" % i for i in range(len(f)))))
            wirearms.append("%s::%s(%s) => %d + %s" % (e.name, n, ", ".join("x%d" % i for i in range(len(f))), ds, " + ".join("x%d.wire_len()" % i for i in range(len(f)))))
            anyarms.append("%s => %s::%s(%s)" % (pat, e.name, n, ", ".join("<%s as VT>::any()" % t for t in f)))
            encarms.append("%s::%s(%s) => { out.put(&(%d as %s).to_le_bytes()); %s }" % (e.name, n, ", ".join("x%d" % i for i in range(len(f))), idx, it, " ".join("x%d.enc(out);" % i for i in range(len(f)))))
            samearms.append("(%s::%s(%s), %s::%s(%s)) => %s" % (e.name, n, ", ".join("a%d" % i for i in range(len(f))), e.name, n, ", ".join("b%d" % i for i in range(len(f))), " && ".join("a%d.same(b%d)" % (i, i) for i in range(len(f)))))
        else:
            validarms.append("%s::%s { %s } => %s" % (e.name, n, ", ".join("g%d" % i for i in range(len(f))), " && ".join("g%d.valid()" % i for i in range(len(f)))))
            wirearms.append("%s::%s { %s } => %d + %s" % (e.name, n, ", ".join("g%d" % i for i in range(len(f))), ds, " + ".join("g%d.wire_len()" % i for i in range(len(f)))))
            anyarms.append("%s => %s::%s { %s }" % (pat, e.name, n, ", ".join("g%d: <%s as VT>::any()" % (i, t) for i, t in enumerate(f))))
            encarms.append("%s::%s { %s } => { out.put(&(%d as %s).to_le_bytes()); %s }" % (e.name, n, ", ".join("g%d" % i for i in range(len(f))), idx, it, " ".join("g%d.enc(out);" % i for i in range(len(f)))))
            samearms.append("(%s::%s { %s }, %s::%s { %s }) => %s" % (e.name, n, ", ".join("g%d: a%d" % (i, i) for i in range(len(f))), e.name, n, ", ".join("g%d: b%d" % (i, i) for i in range(len(f))), " && ".join("a%d.same(b%d)" % (i, i) for i in range(len(f)))))
    if e.many:
        # the last padding variant is also exercised: index nv + many - 1
        last = nv + e.many - 1
        anyarms[-1] = anyarms[-1].replace("_ =>", "%d =>" % (nv - 1))
        anyarms.append("_ => %s::Z%d" % (e.name, e.many - 1))
        encarms.append("%s::Z%d => { out.put(&(%d as %s).to_le_bytes()); }" % (e.name, e.many - 1, last, it))
        encarms.append("_ => { assume(false); }")
        samearms.append("(%s::Z%d, %s::Z%d) => true" % (e.name, e.many - 1, e.name, e.many - 1))
    tagcheck = ""
    if e.repr and any(r.strip() in ("u8", "u16", "u32", "i8", "i16", "i32") for r in e.repr.split(",")):
        rt = [r.strip() for r in e.repr.split(",") if r.strip() != "C"][0]
        tagcheck = "let tag = unsafe { *(self as *const Self as *const %s) }; if !(%s) { return false; } " % (rt, " || ".join("tag == %d" % d for d in discr))
    if e.many:
        validarms.append("_ => true")
        wirearms.append("_ => %d" % ds)
    allunit = all(k == "unit" for (_n, k, _f, _d) in e.variants)
    fixed = "Some(%d)" % ds if allunit else "None"
    out.append("impl VT for %s {\n    const FIXED: Option<usize> = %s;\n    fn any() -> Self { match anyv::<u8>() %% %d { %s } }\n    fn enc(&self, out: &mut RefBuf) { match self { %s } }\n    #[allow(unreachable_patterns)]\n    fn same(&self, o: &Self) -> bool { match (self, o) { %s, _ => false } }\n    fn valid(&self) -> bool { %smatch self { %s } }\n    fn wire_len(&self) -> u128 { match self { %s } }\n}" % (
        e.name, fixed, len(anyarms), ", ".join(anyarms), " ".join(encarms), ", ".join(samearms), tagcheck, ", ".join(validarms), ", ".join(wirearms)))
    return e.name

def gen_dtypes():
    D, E = catalogue()
    allD = {d.name: d for d in D}
    allD.update({e.name: e for e in E})
    out = ["//! GENERATED by gen/generate.py — do not edit. D: derived definitions (DESIGN §4).",
           "#![allow(non_camel_case_types, dead_code)]", "use crate::vt::*;", "use savefile::prelude::*;", ""]
    entries = []  # (tier, harness name, rust type, has_seq, note, definition text, is_var)
    for e in E:
        o = []
        inst = emit_enum(e, o)
        out += o
        entries.append((e.tier, "d_" + e.name, inst, e.has_seq(allD), e.note, o[0], is_var(e.name, allD)))
    for s in D:
        o = []
        inst = emit_struct(s, o, allD)
        out += o
        entries.append((s.tier, "d_" + s.name, inst, s.has_seq(allD), s.note, o[0], is_var(s.name, allD)))
    # catalogue macros
    for tier in ("q", "t"):
        for kind, sel in (("dfixed", lambda hs, var: not hs and not var), ("dvar", lambda hs, var: not hs and var)):
            out.append("#[macro_export]\nmacro_rules! cat_%s_%s { ($m:ident) => {" % (kind, tier))
            for (t, n, ty_, hs, note, _d, var) in entries:
                if t == tier and sel(hs, var):
                    out.append("    $m!(%s, %s, 5, 0);" % (n, ty_))
            out.append("}; }")
        out.append("#[macro_export]\nmacro_rules! cat_dseq_%s { ($m:ident, $l:expr) => {" % tier)
        for (t, n, ty_, hs, note, _d, var) in entries:
            if t == tier and hs:
                out.append("    $m!(%s, %s, 6, $l);" % (n, ty_))
        out.append("}; }")
    out.append("""/// Harness modules for the derived catalogue: dq::*, dq::l0|l2::*, dt::*, dt::l1|l3::*
#[macro_export]
macro_rules! instantiate_derived {
    ($m:ident) => {
        pub mod dq {
            use super::*;
            use crate::dtypes::*;
            cat_dfixed_q!($m);
            cat_dvar_q!($m);
            pub mod l0 { use super::super::*; use crate::dtypes::*; cat_dseq_q!($m, 0); }
            pub mod l2 { use super::super::*; use crate::dtypes::*; cat_dseq_q!($m, 2); }
        }
        pub mod dt {
            use super::*;
            use crate::dtypes::*;
            cat_dfixed_t!($m);
            cat_dvar_t!($m);
            pub mod l1 { use super::super::*; use crate::dtypes::*; cat_dseq_q!($m, 1); cat_dseq_t!($m, 1); }
            pub mod l3 { use super::super::*; use crate::dtypes::*; cat_dseq_t!($m, 3); }
        }
    };
}""")
    # ---- C11 "truthfulness of recorded layout facts": the schema derive(Savefile) reports for T carries
    # size_of / align_of / offset_of of the real type (or None), never something else.
    facts = {"q": [], "t": []}
    def uses_rec(t):
        """schema goes through WithSchemaContext::possible_recursion (HashMap<TypeId>): out of reach (R17)"""
        t = t.lstrip("!")
        if t.startswith("[") or t.startswith("Vec<") or t.startswith("Box<"): return True
        base = t.split("<")[0]
        if base in allD:
            d = allD[base]
            fs = d.fields if isinstance(d, Struct) else [x for v in d.variants for x in v[2]]
            return any(uses_rec(x) for x in fs)
        return False
    for s_ in D:
        if s_.has_seq(allD) or any(uses_rec(f) for f in s_.fields): continue
        inst = "%s<%s>" % (s_.name, s_.generic) if s_.generic else s_.name
        body = ["let s = get_schema::<%s>(0);" % inst, "match &s {", "    Schema::Struct(st) => {",
                "        let (sz, al) = struct_layout(st);",
                '        assert!(sz.is_none() || sz == Some(std::mem::size_of::<%s>()), "C11: schema records a size that is not size_of::<T>()");' % inst,
                '        assert!(al.is_none() || al == Some(std::mem::align_of::<%s>()), "C11: schema records an alignment that is not align_of::<T>()");' % inst,
                '        assert!(st.fields.len() == %d, "C11: schema field count differs from the definition");' % len([f for f in s_.fields if not f.startswith("!")])]
        si = 0
        for i, f in enumerate(s_.fields):
            if f.startswith("!"): continue
            acc = ("%d" % i) if s_.kind == "tuple" else ("f%d" % i)
            body.append('        { let o = field_offset(&st.fields[%d]); assert!(o.is_none() || o == Some(std::mem::offset_of!(%s, %s)), "C11: schema records a field offset that is not offset_of!(T, field)"); }' % (si, inst, acc))
            si += 1
        body += ["    }", '    _ => panic!("C11: schema of a derived struct is not Schema::Struct"),', "}", "std::mem::forget(s);", 'kani::cover!(true, "reached end");']
        facts[s_.tier].append("kproof!(f_%s, 6, {\n        %s\n    });" % (s_.name, "\n        ".join(body)))
    for e in E:
        if e.has_seq(allD) or e.many or uses_rec(e.name): continue
        explicit = bool(e.repr)
        body = ["let s = get_schema::<%s>(0);" % e.name, "match &s {", "    Schema::Enum(en) => {",
                "        let (rp, sz, al) = enum_layout(en);",
                '        assert!(sz.is_none() || sz == Some(std::mem::size_of::<%s>()), "C11: enum schema records a size that is not size_of::<T>()");' % e.name,
                '        assert!(al.is_none() || al == Some(std::mem::align_of::<%s>()), "C11: enum schema records an alignment that is not align_of::<T>()");' % e.name,
                '        assert!(en.discriminant_size == %d, "C11: enum schema records a wrong discriminant width");' % e.dsize(),
                '        assert!(en.variants.len() == %d, "C11: enum schema variant count differs from the definition");' % len(e.variants)]
        if not explicit:
            body.append('        assert!(!rp, "C11: enum without an explicit repr is recorded as having a predictable memory layout");')
        body += ["    }", '    _ => panic!("C11: schema of a derived enum is not Schema::Enum"),', "}", "std::mem::forget(s);", 'kani::cover!(true, "reached end");']
        facts[e.tier].append("kproof!(f_%s, 6, {\n        %s\n    });" % (e.name, "\n        ".join(body)))
    ftxt = "//! GENERATED by gen/generate.py — C11: layout facts recorded in derived schemas are the real ones.\n#![allow(unused_variables)]\nuse crate::common::*;\nuse crate::dtypes::*;\nuse savefile::prelude::*;\nuse savefile::verif_schema_access::*;\n"
    for t_, hs in facts.items():
        ftxt += "pub mod %s {\n    use super::*;\n    %s\n}\n" % (t_, "\n    ".join(hs))
    fpath = os.path.join(V, "kani", "src", "c11f.rs")
    if not os.path.exists(fpath) or open(fpath).read() != ftxt:
        open(fpath, "w").write(ftxt)
    path = os.path.join(V, "kani", "src", "dtypes.rs")
    txt = "\n".join(out) + "\n"
    if not os.path.exists(path) or open(path).read() != txt:
        open(path, "w").write(txt)
    cat = [{"harness": n, "type": ty_, "tier": t, "note": note, "definition": d} for (t, n, ty_, hs, note, d, var) in entries]
    json.dump(cat, open(os.path.join(V, "gen", "catalogue_D.json"), "w"), indent=0)
    return len(entries)

def gen_ledger_version():
    """the data version literal of savefile_abi::verify_compatiblity's load/save calls, read from the source"""
    import re
    repo = os.environ.get("VERIF_REPO", "/repo")
    src = open(os.path.join(repo, "savefile-abi", "src", "lib.rs")).read()
    body = src[src.index("pub fn verify_compatiblity"):]
    body = body[:body.index("\n}\n")]
    def val(tok):
        tok = tok.strip()
        if tok.isdigit(): return int(tok)
        m = re.search(r"const\s+%s\s*:\s*u32\s*=\s*(\d+)" % re.escape(tok), src)
        if not m: raise SystemExit("cannot resolve ledger version token %r" % tok)
        return int(m.group(1))
    l = re.search(r"load_file_noschema\([^,]+,\s*([^)]+)\)", body)
    sv = re.search(r"save_file_noschema\([^,]+,\s*([^,]+),", body)
    if not l or not sv: raise SystemExit("verify_compatiblity: load/save calls not found")
    lv, svv = val(l.group(1)), val(sv.group(1))
    txt = "//! GENERATED from %s/savefile-abi/src/lib.rs (verify_compatiblity).\npub const LEDGER_VERSION: u32 = %d;\npub const LEDGER_LOAD_VERSION: u32 = %d;\n" % (repo, svv, lv)
    path = os.path.join(V, "kani", "src", "ledger_version.rs")
    if not os.path.exists(path) or open(path).read() != txt:
        open(path, "w").write(txt)
    return (svv, lv)

def main():
    ap = argparse.ArgumentParser()
    ap.add_argument("--crate", default="kani")
    a = ap.parse_args()
    if a.crate == "kani":
        n = gen_dtypes()
        print("dtypes: %d definitions" % n)
        sys.path.insert(0, os.path.dirname(os.path.abspath(__file__)))
        import schemas
        print("schemas:", schemas.emit())
        import histories
        print("histories:", histories.emit())
        print("ledger version (save, load):", gen_ledger_version())

if __name__ == "__main__":
    main()
