#!/bin/sh
# usage: tools/seedrun.sh <id> <patch.diff> <PROP> [check args...]
# Runs ./check PROP against a scratch worktree of /repo with the patch applied, from a scratch copy
# of /verif (so /repo itself and /verif/.build stay untouched). Output: .build/seedlogs/<id>.log
id=$1; patch=$2; prop=$3; shift 3
V=$(cd "$(dirname "$0")/.." && pwd)
W=/tmp/mut_$id; C=/tmp/vm_$id
mkdir -p $V/.build/seedlogs
git -C /repo worktree remove --force $W >/dev/null 2>&1; rm -rf $W $C
git -C /repo worktree add -q --detach $W HEAD || exit 3
git -C $W apply "$patch" || { echo "patch does not apply"; git -C /repo worktree remove --force $W; exit 3; }
mkdir -p $C && git -C $V archive HEAD | (cd $C && tar xf -)
sed -i "s#/repo/#$W/#g" $C/kani/Cargo.toml
[ -f $C/kani_abi/Cargo.toml ] && sed -i "s#/repo/#$W/#g" $C/kani_abi/Cargo.toml
(cd $C && VERIF_REPO=$W ./check $prop "$@") > $V/.build/seedlogs/$id.log 2>&1
rc=$?
echo "rc=$rc" >> $V/.build/seedlogs/$id.log
mkdir -p $V/.build/seedlogs/$id && cp -r $C/replays $V/.build/seedlogs/$id/ 2>/dev/null
git -C /repo worktree remove --force $W; rm -rf $C
echo "$id rc=$rc"; grep -E "VIOLATION|OK:|INCONCLUSIVE" $V/.build/seedlogs/$id.log | head -5
exit $rc
