#!/usr/bin/env python3
"""tools/register_seed.py <id> <agent_dir> <prop> <logname> "<note>" : copy a seeded change into seeded/<id>/ with the outcome of its seedrun log"""
import json, os, shutil, sys, re
sid, src, prop, logname, note = sys.argv[1:6]
V = os.path.dirname(os.path.dirname(os.path.abspath(__file__)))
dst = os.path.join(V, "seeded", sid)
os.makedirs(dst, exist_ok=True)
for f in ("patch.diff", "demo.diff"):
    shutil.copy(os.path.join(src, f), os.path.join(dst, f))
m = json.load(open(os.path.join(src, "meta.json")))
log = open(os.path.join(V, ".build", "seedlogs", logname + ".log")).read()
viol = sorted(set(re.findall(r"VIOLATION property=\S+ replay=\S*/(\S+)\.rs", log)))
rc = re.findall(r"rc=(\d+)", log)[-1]
m["checked_against_property"] = prop
m["check_exit_code"] = int(rc)
m["caught_by"] = [v.replace("__", "::") for v in viol] if rc == "1" else "NOT detected (exit %s)" % rc
m["verification_note"] = note
m["what_i_ran"] = "tools/seedrun2.sh %s seeded/%s/patch.diff %s (scratch worktree of /repo with the patch + scratch copy of committed /verif; ./check %s --tier quick). The sub-agent ran the baseline suite with the patch (passes) and the demonstration with / without the patch (fails / passes)." % (logname, sid, prop, prop)
json.dump(m, open(os.path.join(dst, "meta.json"), "w"), indent=1)
print(sid, rc, m["caught_by"])
