//! C10 ABI version tolerance — argument / return encoding across interface versions.
//! Both versions of an interface family are real `#[savefile_abi_exportable]` expansions in one
//! crate (as the repository's own argument_backward_compatibility test does).
use crate::common::*;
use savefile::prelude::*;
use savefile_abi::*;

pub mod v0 {
    use savefile::prelude::*;
    use savefile_derive::savefile_abi_exportable;
    #[derive(Savefile, Debug)]
    pub struct Ret { pub a: u32, pub b: u32 }
    #[derive(Savefile, Debug)]
    pub struct Arg { pub p: u16, pub q: u32 }
    #[savefile_abi_exportable(version = 0)]
    pub trait Svc {
        fn get(&self, x: u32) -> Ret;
        fn put(&self, a: Arg) -> u32;
    }
}
pub mod v1 {
    use savefile::prelude::*;
    use savefile_derive::savefile_abi_exportable;
    /// version 1 adds `n` *before* the retained fields
    #[derive(Savefile, Debug)]
    pub struct Ret {
        #[savefile_versions = "1.."]
        #[savefile_default_val = "77"]
        pub n: u32,
        pub a: u32,
        pub b: u32,
    }
    #[derive(Savefile, Debug)]
    pub struct Arg {
        #[savefile_versions = "1.."]
        #[savefile_default_val = "9"]
        pub extra: u8,
        pub p: u16,
        pub q: u32,
    }
    #[savefile_abi_exportable(version = 1)]
    pub trait Svc {
        fn get(&self, x: u32) -> Ret;
        fn put(&self, a: Arg) -> u32;
    }
}
pub static mut SEEN_X: u32 = 0;
pub static mut SEEN_ARG: (u8, u16, u32) = (0, 0, 0);
pub static mut RET: (u32, u32, u32) = (0, 0, 0);

pub struct Impl1;
impl v1::Svc for Impl1 {
    fn get(&self, x: u32) -> v1::Ret {
        unsafe { SEEN_X = x; v1::Ret { n: RET.0, a: RET.1, b: RET.2 } }
    }
    fn put(&self, a: v1::Arg) -> u32 {
        unsafe { SEEN_ARG = (a.extra, a.p, a.q); }
        5
    }
}
pub struct Impl0;
impl v0::Svc for Impl0 {
    fn get(&self, x: u32) -> v0::Ret {
        unsafe { SEEN_X = x; v0::Ret { a: RET.1, b: RET.2 } }
    }
    fn put(&self, a: v0::Arg) -> u32 {
        unsafe { SEEN_ARG = (0, a.p, a.q); }
        6
    }
}

pub mod q {
    use super::*;
    // old caller (v0) -> newer implementation (v1): negotiated version 0.
    kproof!(ret_old_caller_new_impl, 6, {
        let (n, a, b, x): (u32, u32, u32, u32) = (kani::any(), kani::any(), kani::any(), kani::any());
        unsafe { RET = (n, a, b); }
        let imp: Box<dyn v1::Svc> = Box::new(Impl1);
        let conn: AbiConnection<dyn v0::Svc> = connect::<dyn v0::Svc, dyn v1::Svc>(imp, 0, vec![m(Some(0), 0), m(Some(1), 0)]);
        let r = v0::Svc::get(&conn, x);
        assert!(unsafe { SEEN_X } == x, "C10: argument value seen by the implementation differs");
        assert!(r.a == a && r.b == b, "C10: retained fields of the return value differ at the older caller (return value not transmitted in the negotiated version's format)");
        std::mem::forget(conn);
        kani::cover!(true, "reached end");
    });
    // new caller (v1) -> older implementation (v0): negotiated version 0; caller fills fields the callee lacks with defaults.
    kproof!(ret_new_caller_old_impl, 6, {
        let (a, b, x): (u32, u32, u32) = (kani::any(), kani::any(), kani::any());
        unsafe { RET = (0, a, b); }
        let imp: Box<dyn v0::Svc> = Box::new(Impl0);
        let conn: AbiConnection<dyn v1::Svc> = connect::<dyn v1::Svc, dyn v0::Svc>(imp, 0, vec![m(Some(0), 0), m(Some(1), 0)]);
        let r = v1::Svc::get(&conn, x);
        assert!(unsafe { SEEN_X } == x, "C10: argument value seen by the implementation differs");
        assert!(r.a == a && r.b == b, "C10: retained fields of the return value differ at the newer caller");
        assert!(r.n == 77, "C10: field unknown to the older implementation is not filled with its default at the caller");
        std::mem::forget(conn);
        kani::cover!(true, "reached end");
    });
    kproof!(arg_old_caller_new_impl, 6, {
        let (p, q): (u16, u32) = (kani::any(), kani::any());
        let imp: Box<dyn v1::Svc> = Box::new(Impl1);
        let conn: AbiConnection<dyn v0::Svc> = connect::<dyn v0::Svc, dyn v1::Svc>(imp, 0, vec![m(Some(0), 0), m(Some(1), 0)]);
        let r = v0::Svc::put(&conn, v0::Arg { p, q });
        assert!(r == 5, "C10: return value differs");
        assert!(unsafe { SEEN_ARG } == (9, p, q), "C10: newer implementation does not see retained argument fields unchanged and added ones defaulted");
        std::mem::forget(conn);
        kani::cover!(true, "reached end");
    });
    kproof!(arg_new_caller_old_impl, 6, {
        let (e, p, q): (u8, u16, u32) = (kani::any(), kani::any(), kani::any());
        let imp: Box<dyn v0::Svc> = Box::new(Impl0);
        let conn: AbiConnection<dyn v1::Svc> = connect::<dyn v1::Svc, dyn v0::Svc>(imp, 0, vec![m(Some(0), 0), m(Some(1), 0)]);
        let r = v1::Svc::put(&conn, v1::Arg { extra: e, p, q });
        assert!(r == 6, "C10: return value differs");
        assert!(unsafe { SEEN_ARG } == (0, p, q), "C10: older implementation does not see the retained argument fields unchanged");
        std::mem::forget(conn);
        kani::cover!(true, "reached end");
    });
}

/// Minimal interface family for the return path: one method, u8 fields, Default for the added field.
pub mod r0 {
    use savefile::prelude::*;
    use savefile_derive::savefile_abi_exportable;
    #[derive(Savefile, Debug)]
    pub struct Ret { pub a: u8, pub b: u8 }
    #[savefile_abi_exportable(version = 0)]
    pub trait Get { fn get(&self) -> Ret; }
}
pub mod r1 {
    use savefile::prelude::*;
    use savefile_derive::savefile_abi_exportable;
    #[derive(Savefile, Debug)]
    pub struct Ret {
        #[savefile_versions = "1.."]
        pub n: u8,
        pub a: u8,
        pub b: u8,
    }
    #[savefile_abi_exportable(version = 1)]
    pub trait Get { fn get(&self) -> Ret; }
}
pub static mut RET8: (u8, u8, u8) = (0, 0, 0);
pub struct Get1;
impl r1::Get for Get1 {
    fn get(&self) -> r1::Ret { unsafe { r1::Ret { n: RET8.0, a: RET8.1, b: RET8.2 } } }
}
pub struct Get0;
impl r0::Get for Get0 {
    fn get(&self) -> r0::Ret { unsafe { r0::Ret { a: RET8.1, b: RET8.2 } } }
}
pub mod rq {
    use super::*;
    kproof!(ret_old_caller_new_impl, 6, {
        let (n, a, b): (u8, u8, u8) = (kani::any(), kani::any(), kani::any());
        unsafe { RET8 = (n, a, b); }
        let imp: Box<dyn r1::Get> = Box::new(Get1);
        let conn: AbiConnection<dyn r0::Get> = connect::<dyn r0::Get, dyn r1::Get>(imp, 0, vec![m(Some(0), 0)]);
        let r = r0::Get::get(&conn);
        assert!(r.a == a && r.b == b, "C10: retained fields of the return value differ at the older caller (return value not transmitted in the negotiated version's format)");
        std::mem::forget(conn);
        kani::cover!(true, "reached end");
    });
}
/// Out of reach on this machine (out of memory with jobs = 1); kept for documentation.
pub mod rx {
    use super::*;
    kproof!(ret_new_caller_old_impl, 6, {
        let (a, b): (u8, u8) = (kani::any(), kani::any());
        unsafe { RET8 = (0, a, b); }
        let imp: Box<dyn r0::Get> = Box::new(Get0);
        let conn: AbiConnection<dyn r1::Get> = connect::<dyn r1::Get, dyn r0::Get>(imp, 0, vec![m(Some(0), 0)]);
        let r = r1::Get::get(&conn);
        assert!(r.a == a && r.b == b, "C10: retained fields of the return value differ at the newer caller");
        assert!(r.n == 0, "C10: field unknown to the older implementation is not filled with its default at the caller");
        std::mem::forget(conn);
        kani::cover!(true, "reached end");
    });
}
