#![allow(dead_code, unused_imports, unused_macros, non_snake_case, non_camel_case_types, clippy::all)]
extern crate alloc;
#[macro_use]
pub mod common;
#[cfg(kani)]
mod c10;
#[cfg(kani)]
mod c09;
#[cfg(kani)]
mod warmup {
    kproof!(warmup, 4, {
        let x: u8 = kani::any();
        assert!(x as u16 <= 255);
    });
}
