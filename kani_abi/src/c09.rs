//! C09 ABI transparency — data path: the real generated caller trampoline, argument encoding,
//! callee trampoline, return encoding and return parsing, through a hand-built connection
//! (common::connect). The implementation records what it receives in statics; the harness compares
//! with what was passed, for all argument values and for *both* values of each by-reference mask bit.
use crate::common::*;
use savefile::prelude::*;
use savefile_abi::*;
use savefile_derive::savefile_abi_exportable;

#[derive(Savefile, Debug, Clone, Copy, PartialEq)]
#[repr(C)]
pub struct Pt { pub x: u32, pub y: u32 }
#[derive(Savefile, Debug, Clone, PartialEq)]
pub struct Np { pub a: u8, pub b: u32 }

#[savefile_abi_exportable(version = 0)]
pub trait Calc {
    fn add(&self, a: u32, b: u32) -> u32;
    fn shift(&self, p: &Pt, dx: u32) -> Pt;
    fn np_ref(&self, p: &Np) -> u8;
    fn nine(&self, a: u64, b: u64, c: u64, d: u64, e: u64, f: u64, g: u64, h: u32, i: u32) -> u32;
    fn unit(&self, a: u16);
    fn res(&self, a: u8) -> Result<u32, u8>;
    fn by_val(&self, p: Pt) -> u64;
    fn text(&self, s: &str) -> u32;
    fn wide(&self, a: i64, b: u8, c: i16) -> i64;
    fn wide2(&self, a: u64, b: i8, c: u16) -> (u16, i64);
    fn nest(&self, a: ([[u32; 2]; 2], [[u32; 2]; 2]), b: u8) -> u32;
    fn nest_ret(&self, a: u8) -> ([(u16, u16); 2], [(u16, u16); 2]);
}
pub static mut SEEN: [u64; 10] = [0; 10];
pub static mut CALLS: u32 = 0;
pub struct CalcImpl;
impl Calc for CalcImpl {
    fn add(&self, a: u32, b: u32) -> u32 {
        unsafe { SEEN[0] = a as u64; SEEN[1] = b as u64; CALLS += 1; }
        a.wrapping_add(b)
    }
    fn shift(&self, p: &Pt, dx: u32) -> Pt {
        unsafe { SEEN[0] = p.x as u64; SEEN[1] = p.y as u64; SEEN[2] = dx as u64; CALLS += 1; }
        Pt { x: p.x.wrapping_add(dx), y: p.y }
    }
    fn np_ref(&self, p: &Np) -> u8 {
        unsafe { SEEN[0] = p.a as u64; SEEN[1] = p.b as u64; CALLS += 1; }
        p.a
    }
    fn nine(&self, a: u64, b: u64, c: u64, d: u64, e: u64, f: u64, g: u64, h: u32, i: u32) -> u32 {
        unsafe { SEEN = [a, b, c, d, e, f, g, h as u64, i as u64, 0]; CALLS += 1; }
        h ^ i
    }
    fn unit(&self, a: u16) {
        unsafe { SEEN[0] = a as u64; CALLS += 1; }
    }
    fn res(&self, a: u8) -> Result<u32, u8> {
        unsafe { SEEN[0] = a as u64; CALLS += 1; }
        if a & 1 == 0 { Ok(a as u32 + 1000) } else { Err(a) }
    }
    fn by_val(&self, p: Pt) -> u64 {
        unsafe { SEEN[0] = p.x as u64; SEEN[1] = p.y as u64; CALLS += 1; }
        ((p.x as u64) << 32) | p.y as u64
    }
    fn wide(&self, a: i64, b: u8, c: i16) -> i64 {
        unsafe { SEEN[0] = a as u64; SEEN[1] = b as u64; SEEN[2] = c as u16 as u64; CALLS += 1; }
        a ^ 0x55
    }
    fn wide2(&self, a: u64, b: i8, c: u16) -> (u16, i64) {
        unsafe { SEEN[0] = a; SEEN[1] = b as u8 as u64; SEEN[2] = c as u64; CALLS += 1; }
        (c, a as i64)
    }
    fn nest(&self, a: ([[u32; 2]; 2], [[u32; 2]; 2]), b: u8) -> u32 {
        unsafe { SEEN = [a.0[0][0] as u64, a.0[0][1] as u64, a.0[1][0] as u64, a.0[1][1] as u64, a.1[0][0] as u64, a.1[0][1] as u64, a.1[1][0] as u64, a.1[1][1] as u64, b as u64, 0]; CALLS += 1; }
        a.1[1][1] ^ b as u32
    }
    fn nest_ret(&self, a: u8) -> ([(u16, u16); 2], [(u16, u16); 2]) {
        unsafe { SEEN[0] = a as u64; CALLS += 1; }
        let w = a as u16;
        ([(w, w + 1), (w + 2, w + 3)], [(w + 4, w + 5), (w + 6, w + 7)])
    }
    fn text(&self, s: &str) -> u32 {
        let b = s.as_bytes();
        unsafe { SEEN[0] = b.len() as u64; SEEN[1] = if b.len() > 0 { b[0] as u64 } else { 0 }; SEEN[2] = if b.len() > 1 { b[1] as u64 } else { 0 }; CALLS += 1; }
        b.len() as u32
    }
}
fn conn(masks: u64) -> AbiConnection<dyn Calc> {
    let imp: Box<dyn Calc> = Box::new(CalcImpl);
    connect::<dyn Calc, dyn Calc>(imp, 0, vec![m(Some(0), masks), m(Some(1), masks), m(Some(2), masks), m(Some(3), masks), m(Some(4), masks), m(Some(5), masks), m(Some(6), masks), m(Some(7), masks), m(Some(8), masks), m(Some(9), masks), m(Some(10), masks), m(Some(11), masks)])
}
pub mod q {
    use super::*;
    kproof!(add_u32, 6, {
        let (a, b): (u32, u32) = (kani::any(), kani::any());
        let c = conn(0);
        let r = c.add(a, b);
        assert!(unsafe { SEEN[0] == a as u64 && SEEN[1] == b as u64 }, "C09: the implementation received different argument values");
        assert!(r == a.wrapping_add(b), "C09: the caller received a different return value");
        assert!(unsafe { CALLS } == 1, "C09: the implementation was not called exactly once");
        std::mem::forget(c);
        kani::cover!(true, "reached end");
    });
    // every primitive width in the fixed-size argument / return buffers
    kproof!(wide_ints, 6, {
        let (a, b, cc): (i64, u8, i16) = (kani::any(), kani::any(), kani::any());
        let c = conn(0);
        let r = c.wide(a, b, cc);
        assert!(unsafe { SEEN[0] == a as u64 && SEEN[1] == b as u64 && SEEN[2] == cc as u16 as u64 }, "C09: the implementation received different argument values (i64/u8/i16)");
        assert!(r == a ^ 0x55, "C09: the caller received a different i64 return value");
        std::mem::forget(c);
        kani::cover!(true, "reached end");
    });
    // fixed-size compound types (tuples of arrays of arrays / of tuples): element size != element alignment
    kproof!(nested_fixed_arg, 6, {
        let a: ([[u32; 2]; 2], [[u32; 2]; 2]) = kani::any();
        let b: u8 = kani::any();
        let c = conn(0);
        let r = c.nest(a, b);
        assert!(unsafe { SEEN[0] == a.0[0][0] as u64 && SEEN[3] == a.0[1][1] as u64 && SEEN[4] == a.1[0][0] as u64 && SEEN[7] == a.1[1][1] as u64 && SEEN[8] == b as u64 },
                "C09: the implementation received different argument values (tuple of nested arrays)");
        assert!(unsafe { SEEN[1] == a.0[0][1] as u64 && SEEN[2] == a.0[1][0] as u64 && SEEN[5] == a.1[0][1] as u64 && SEEN[6] == a.1[1][0] as u64 },
                "C09: the implementation received different argument values (tuple of nested arrays, inner)");
        assert!(r == a.1[1][1] ^ b as u32, "C09: the caller received a different return value");
        std::mem::forget(c);
        kani::cover!(true, "reached end");
    });
    kproof!(nested_fixed_ret, 6, {
        let a: u8 = kani::any();
        let c = conn(0);
        let r = c.nest_ret(a);
        let w = a as u16;
        assert!(unsafe { SEEN[0] == a as u64 }, "C09: the implementation received a different argument value");
        assert!(r.0[0] == (w, w + 1) && r.0[1] == (w + 2, w + 3) && r.1[0] == (w + 4, w + 5) && r.1[1] == (w + 6, w + 7),
                "C09: the caller received a different return value (tuple of arrays of tuples)");
        std::mem::forget(c);
        kani::cover!(true, "reached end");
    });
    kproof!(wide_ints2, 6, {
        let (a, b, cc): (u64, i8, u16) = (kani::any(), kani::any(), kani::any());
        let c = conn(0);
        let r = c.wide2(a, b, cc);
        assert!(unsafe { SEEN[0] == a && SEEN[1] == b as u8 as u64 && SEEN[2] == cc as u64 }, "C09: the implementation received different argument values (u64/i8/u16)");
        assert!(r.0 == cc && r.1 == a as i64, "C09: the caller received a different tuple return value");
        std::mem::forget(c);
        kani::cover!(true, "reached end");
    });
}
pub mod t {
    use super::*;
    kproof!(np_ref_nonpacked, 6, {
        let (a, b): (u8, u32) = (kani::any(), kani::any());
        let byref: bool = kani::any();
        let c = conn(if byref { 1 } else { 0 });
        let p = Np { a, b };
        let r = c.np_ref(&p);
        assert!(unsafe { SEEN[0] == a as u64 && SEEN[1] == b as u64 }, "C09: the implementation received different argument values");
        assert!(r == a, "C09: the caller received a different return value");
        std::mem::forget(c);
        kani::cover!(true, "reached end");
    });
    // 7*8 + 4 + 4 = 64 bytes of arguments (+4 version): straddles the 64-byte inline buffer
    kproof!(nine_args_boundary, 6, {
        let v: [u64; 7] = kani::any();
        let (h, i): (u32, u32) = (kani::any(), kani::any());
        let c = conn(0);
        let r = c.nine(v[0], v[1], v[2], v[3], v[4], v[5], v[6], h, i);
        let k: usize = kani::any();
        kani::assume(k < 7);
        assert!(unsafe { SEEN[k] } == v[k], "C09: the implementation received different argument values (inline buffer boundary)");
        assert!(unsafe { SEEN[7] == h as u64 && SEEN[8] == i as u64 }, "C09: trailing arguments differ (inline buffer boundary)");
        assert!(r == h ^ i, "C09: the caller received a different return value");
        std::mem::forget(c);
        kani::cover!(true, "reached end");
    });
    kproof!(result_ret, 6, {
        let a: u8 = kani::any();
        let c = conn(0);
        let r = c.res(a);
        assert!(unsafe { SEEN[0] } == a as u64, "C09: the implementation received a different argument");
        match r {
            Ok(v) => assert!(a & 1 == 0 && v == a as u32 + 1000, "C09: Ok result differs"),
            Err(e) => assert!(a & 1 == 1 && e == a, "C09: Err result differs"),
        }
        std::mem::forget(c);
        kani::cover!(true, "reached end");
    });
    kproof!(str_arg, 8, {
        let (a, b): (u8, u8) = (kani::any(), kani::any());
        kani::assume(a < 128 && b < 128);
        let s = unsafe { String::from_utf8_unchecked(vec![a, b]) };
        let byref: bool = kani::any();
        let c = conn(if byref { 1 } else { 0 });
        let r = c.text(&s);
        assert!(unsafe { SEEN[0] == 2 && SEEN[1] == a as u64 && SEEN[2] == b as u64 }, "C09: the implementation received a different &str");
        assert!(r == 2, "C09: the caller received a different return value");
        std::mem::forget(c);
        std::mem::forget(s);
        kani::cover!(true, "reached end");
    });
    // a method the implementation lacks: clear panic at call time
    #[kani::proof]
    #[kani::should_panic]
    #[kani::stub(std::collections::hash_map::RandomState::new, crate::common::fixed_keys)]
    #[kani::stub(alloc::fmt::format, crate::common::fmt_stub)]
    #[kani::unwind(6)]
    pub fn missing_method_panics() {
        let imp: Box<dyn Calc> = Box::new(CalcImpl);
        let c = connect::<dyn Calc, dyn Calc>(imp, 0, vec![m(None, 0), m(Some(1), 0), m(Some(2), 0), m(Some(3), 0), m(Some(4), 0), m(Some(5), 0), m(Some(6), 0), m(Some(7), 0), m(Some(8), 0), m(Some(9), 0)]);
        let _ = c.add(1, 2);
    }
}
/// FlexBuffer (the argument / return buffer for signatures without a compile-time size): two writes of
/// concrete sizes around the 64-byte inline capacity, symbolic contents: len() and every byte equal the
/// concatenation, inline and spilled.
macro_rules! fb_harness {
    ($name:ident, $first:expr, $second:expr) => {
        kproof!($name, 4, {
            use std::io::Write;
            let a: [u8; $first] = kani::any();
            let b: [u8; $second] = kani::any();
            let mut f = FlexBuffer::new();
            f.write_all(&a).unwrap();
            f.write_all(&b).unwrap();
            assert!(f.len() == $first + $second, "C09: FlexBuffer length differs from the bytes written");
            let i: usize = kani::any();
            kani::assume(i < $first + $second);
            let got = unsafe { *f.as_ptr().add(i) };
            let want = if i < $first { a[i] } else { b[i - $first] };
            assert!(got == want, "C09: FlexBuffer content differs from the bytes written (inline/spill boundary)");
            std::mem::forget(f);
            kani::cover!(true, "reached end");
        });
    };
}
pub mod fb {
    use super::*;
    fb_harness!(w64_1, 64, 1);
    fb_harness!(w64_4, 64, 4);
    fb_harness!(w63_1, 63, 1);
    fb_harness!(w63_2, 63, 2);
    fb_harness!(w60_4, 60, 4);
    fb_harness!(w60_8, 60, 8);
    fb_harness!(w56_8, 56, 8);
    fb_harness!(w65_1, 65, 1);
    fb_harness!(w1_64, 1, 64);
    fb_harness!(w32_33, 32, 33);
    fb_harness!(w12_52, 12, 52);
}
/// Out of reach on this machine (measured with jobs=1: out of memory > 45 GB, or no result in 40 min);
/// kept for documentation and manual runs, not part of any tier.
pub mod x {
    use super::*;
    // &Pt travels as a raw pointer (mask bit 0 set) or serialized (clear): same observable effect
    kproof!(shift_ref_packed, 6, {
        let (x, y, dx): (u32, u32, u32) = (kani::any(), kani::any(), kani::any());
        let byref: bool = kani::any();
        let c = conn(if byref { 1 } else { 0 });
        let p = Pt { x, y };
        let r = c.shift(&p, dx);
        assert!(unsafe { SEEN[0] == x as u64 && SEEN[1] == y as u64 && SEEN[2] == dx as u64 }, "C09: the implementation received different argument values (depends on by-reference passing)");
        assert!(r.x == x.wrapping_add(dx) && r.y == y, "C09: the caller received a different return value");
        std::mem::forget(c);
        kani::cover!(byref, "by-reference path taken");
        kani::cover!(!byref, "serialized path taken");
        kani::cover!(true, "reached end");
    });
    kproof!(unit_ret, 6, {
        let a: u16 = kani::any();
        let c = conn(0);
        c.unit(a);
        assert!(unsafe { SEEN[0] == a as u64 && CALLS == 1 }, "C09: the implementation received a different argument / was not called once");
        std::mem::forget(c);
        kani::cover!(true, "reached end");
    });
    kproof!(struct_by_value, 6, {
        let (x, y): (u32, u32) = (kani::any(), kani::any());
        let c = conn(0);
        let r = c.by_val(Pt { x, y });
        assert!(unsafe { SEEN[0] == x as u64 && SEEN[1] == y as u64 }, "C09: the implementation received a different by-value struct");
        assert!(r == ((x as u64) << 32) | y as u64, "C09: the caller received a different return value");
        std::mem::forget(c);
        kani::cover!(true, "reached end");
    });
}
