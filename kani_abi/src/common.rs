//! Stubs and helpers for the ABI harness crate (same three stubs as the core crate).
use savefile::prelude::*;
use savefile_abi::{AbiConnection, AbiConnectionMethod, AbiConnectionTemplate, AbiExportable, AbiProtocol, Owning, TraitObject};

pub fn fixed_keys() -> std::collections::hash_map::RandomState {
    unsafe { std::mem::transmute([0u64; 2]) }
}
pub fn fmt_stub(_a: core::fmt::Arguments<'_>) -> String {
    String::new()
}
pub fn from_utf8_stub(v: Vec<u8>) -> Result<String, std::string::FromUtf8Error> {
    let mut i = 0;
    while i < v.len() {
        #[cfg(kani)]
        kani::assume(v[i] < 128);
        i += 1;
    }
    Ok(unsafe { String::from_utf8_unchecked(v) })
}
#[macro_export]
macro_rules! kproof {
    ($name:ident, $unwind:expr, $body:block) => {
        #[kani::proof]
        #[kani::stub(std::collections::hash_map::RandomState::new, crate::common::fixed_keys)]
        #[kani::stub(alloc::fmt::format, crate::common::fmt_stub)]
        #[kani::stub(alloc::string::String::from_utf8, crate::common::from_utf8_stub)]
        #[kani::unwind($unwind)]
        pub fn $name() $body
    };
}

/// The entry point a real connection would reach through `abi_entry_light`: forwards a
/// RegularCall straight to the generated callee trampoline `<I as AbiExportable>::call`
/// (DESIGN R9: connection creation / negotiation through the global caches is out of reach, the
/// data path — caller trampoline, argument encoding, callee trampoline, return encoding, return
/// parsing — is the real generated code).
pub unsafe extern "C" fn direct_entry<I: AbiExportable + ?Sized>(flag: AbiProtocol) {
    match flag {
        AbiProtocol::RegularCall { trait_object, compatibility_mask, data, data_length, abi_result, receiver, effective_version, method_number } => {
            let data = std::slice::from_raw_parts(data, data_length);
            match I::call(trait_object, method_number, effective_version, compatibility_mask, data, abi_result, receiver) {
                Ok(()) => {}
                Err(e) => {
                    std::mem::forget(e);
                    panic!("callee trampoline reported an ABI error");
                }
            }
        }
        _ => panic!("only RegularCall is modelled"),
    }
}

/// Hand-built connection of a caller compiled against `dyn C` to an implementation object of
/// interface `dyn I` (same or different version of the interface family).
pub fn m(num: Option<u16>, mask: u64) -> AbiConnectionMethod {
    AbiConnectionMethod {
        method_name: String::new(),
        caller_info: AbiMethodInfo { return_value: Schema::ZeroSize, receiver: ReceiverType::Shared, arguments: Vec::new(), async_trait_heuristic: false },
        callee_method_number: num,
        compatibility_mask: mask,
    }
}
/// `methods` is built with a `vec![m(..), m(..)]` literal (no loop in the harness: R6).
pub fn connect<C: ?Sized, I: AbiExportable + ?Sized>(imp: Box<I>, effective_version: u32, methods: Vec<AbiConnectionMethod>) -> AbiConnection<C> {
    let methods: &'static [AbiConnectionMethod] = Box::leak(methods.into_boxed_slice());
    AbiConnection {
        template: AbiConnectionTemplate { effective_version, methods, entry: direct_entry::<I> },
        owning: Owning::NotOwned,
        trait_object: TraitObject::new(imp),
        phantom: std::marker::PhantomData,
    }
}
