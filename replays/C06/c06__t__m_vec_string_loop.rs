// property=C06 crate=kani harness=c06::t::m_vec_string_loop test=kani_concrete_playback_m_vec_string_loop_8708816167037946785
// Concrete counterexample produced by CBMC; replay with: ./check C06 --replay /verif/replays/C06/c06__t__m_vec_string_loop.rs
/// Test generated for harness `c06::t::m_vec_string_loop` 
///
/// Check for `assertion`: "This is a placeholder message; Kani doesn't support message formatted at runtime"
///
/// # Warning
///
/// Concrete playback tests combined with stubs or contracts is highly
/// experimental, and subject to change.
///
/// The original harness has stubs which are not applied to this test.
/// This may cause a mismatch of non-deterministic values if the stub
/// creates any non-deterministic value.
/// The execution path may also differ, which can be used to refine the stub
/// logic.

#[test]
fn kani_concrete_playback_m_vec_string_loop_8708816167037946785() {
    let concrete_vals: Vec<Vec<u8>> = vec![
        // 1
        vec![1],
        // 0
        vec![0],
        // 0
        vec![0],
        // 0
        vec![0],
        // 0
        vec![0],
        // 0
        vec![0],
        // 0
        vec![0],
        // 0
        vec![0],
        // 245
        vec![245],
        // 255
        vec![255],
        // 255
        vec![255],
        // 255
        vec![255],
        // 255
        vec![255],
        // 255
        vec![255],
        // 253
        vec![253],
        // 255
        vec![255],
        // 191
        vec![191],
        // 127
        vec![127],
        // 127
        vec![127],
        // 127
        vec![127],
    ];
    kani::concrete_playback_run(concrete_vals, m_vec_string_loop);
}
