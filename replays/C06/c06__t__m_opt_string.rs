// property=C06 crate=kani harness=c06::t::m_opt_string test=kani_concrete_playback_m_opt_string_14961409349879001935
// Concrete counterexample produced by CBMC; replay with: ./check C06 --replay /verif/replays/C06/c06__t__m_opt_string.rs
/// Test generated for harness `c06::t::m_opt_string` 
///
/// Check for `assertion`: "This is a placeholder message; Kani doesn't support message formatted at runtime"
///
/// # Warning
///
/// Concrete playback tests combined with stubs or contracts is highly
/// experimental, and subject to change.
///
/// The original harness has stubs which are not applied to this test.
/// This may cause a mismatch of non-deterministic values if the stub
/// creates any non-deterministic value.
/// The execution path may also differ, which can be used to refine the stub
/// logic.

#[test]
fn kani_concrete_playback_m_opt_string_14961409349879001935() {
    let concrete_vals: Vec<Vec<u8>> = vec![
        // 1
        vec![1],
        // 0
        vec![0],
        // 0
        vec![0],
        // 0
        vec![0],
        // 0
        vec![0],
        // 0
        vec![0],
        // 0
        vec![0],
        // 0
        vec![0],
        // 128
        vec![128],
        // 0
        vec![0],
        // 0
        vec![0],
        // 0
        vec![0],
    ];
    kani::concrete_playback_run(concrete_vals, m_opt_string);
}
