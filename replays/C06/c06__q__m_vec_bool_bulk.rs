// property=C06 crate=kani harness=c06::q::m_vec_bool_bulk test=kani_concrete_playback_m_vec_bool_bulk_4087627599294749319
// Concrete counterexample produced by CBMC; replay with: ./check C06 --replay /verif/replays/C06/c06__q__m_vec_bool_bulk.rs
/// Test generated for harness `c06::q::m_vec_bool_bulk` 
///
/// Check for `assertion`: ""C06: loaded value holds an invalid bool/char/enum bit pattern (undefined behaviour)""
///
/// # Warning
///
/// Concrete playback tests combined with stubs or contracts is highly
/// experimental, and subject to change.
///
/// The original harness has stubs which are not applied to this test.
/// This may cause a mismatch of non-deterministic values if the stub
/// creates any non-deterministic value.
/// The execution path may also differ, which can be used to refine the stub
/// logic.

#[test]
fn kani_concrete_playback_m_vec_bool_bulk_4087627599294749319() {
    let concrete_vals: Vec<Vec<u8>> = vec![
        // 2
        vec![2],
        // 0
        vec![0],
        // 0
        vec![0],
        // 0
        vec![0],
        // 0
        vec![0],
        // 0
        vec![0],
        // 0
        vec![0],
        // 0
        vec![0],
        // 255
        vec![255],
        // 255
        vec![255],
        // 255
        vec![255],
        // 1ul
        vec![1, 0, 0, 0, 0, 0, 0, 0],
    ];
    kani::concrete_playback_run(concrete_vals, m_vec_bool_bulk);
}
