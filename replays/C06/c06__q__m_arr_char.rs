// property=C06 crate=kani harness=c06::q::m_arr_char test=kani_concrete_playback_m_arr_char_858756322260709381
// Concrete counterexample produced by CBMC; replay with: ./check C06 --replay /verif/replays/C06/c06__q__m_arr_char.rs
/// Test generated for harness `c06::q::m_arr_char` 
///
/// Check for `assertion`: ""C06: loaded value holds an invalid bool/char/enum bit pattern (undefined behaviour)""
///
/// # Warning
///
/// Concrete playback tests combined with stubs or contracts is highly
/// experimental, and subject to change.
///
/// The original harness has stubs which are not applied to this test.
/// This may cause a mismatch of non-deterministic values if the stub
/// creates any non-deterministic value.
/// The execution path may also differ, which can be used to refine the stub
/// logic.

#[test]
fn kani_concrete_playback_m_arr_char_858756322260709381() {
    let concrete_vals: Vec<Vec<u8>> = vec![
        // 255
        vec![255],
        // 255
        vec![255],
        // 255
        vec![255],
        // 255
        vec![255],
        // 255
        vec![255],
        // 255
        vec![255],
    ];
    kani::concrete_playback_run(concrete_vals, m_arr_char);
}
