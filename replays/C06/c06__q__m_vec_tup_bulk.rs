// property=C06 crate=kani harness=c06::q::m_vec_tup_bulk test=kani_concrete_playback_m_vec_tup_bulk_10184813369164385016
// Concrete counterexample produced by CBMC; replay with: ./check C06 --replay /verif/replays/C06/c06__q__m_vec_tup_bulk.rs
/// Test generated for harness `c06::q::m_vec_tup_bulk` 
///
/// Check for `assertion`: "attempt to multiply with overflow"
///
/// # Warning
///
/// Concrete playback tests combined with stubs or contracts is highly
/// experimental, and subject to change.
///
/// The original harness has stubs which are not applied to this test.
/// This may cause a mismatch of non-deterministic values if the stub
/// creates any non-deterministic value.
/// The execution path may also differ, which can be used to refine the stub
/// logic.

#[test]
fn kani_concrete_playback_m_vec_tup_bulk_10184813369164385016() {
    let concrete_vals: Vec<Vec<u8>> = vec![
        // 0
        vec![0],
        // 0
        vec![0],
        // 0
        vec![0],
        // 0
        vec![0],
        // 0
        vec![0],
        // 0
        vec![0],
        // 0
        vec![0],
        // 192
        vec![192],
        // 0
        vec![0],
        // 0
        vec![0],
        // 0
        vec![0],
        // 0
        vec![0],
    ];
    kani::concrete_playback_run(concrete_vals, m_vec_tup_bulk);
}
