// property=C02 crate=kani harness=c02::q::t_res_u8_u16 test=kani_concrete_playback_t_res_u8_u16_5131535678093524874,kani_concrete_playback_t_res_u8_u16_12564314202966799492,kani_concrete_playback_t_res_u8_u16_13389054430532309842
// Concrete counterexample produced by CBMC; replay with: ./check C02 --replay /verif/replays/C02/c02__q__t_res_u8_u16.rs
/// Test generated for harness `c02::q::t_res_u8_u16` 
///
/// Check for `assertion`: "This is a placeholder message; Kani doesn't support message formatted at runtime"
///
/// # Warning
///
/// Concrete playback tests combined with stubs or contracts is highly
/// experimental, and subject to change.
///
/// The original harness has stubs which are not applied to this test.
/// This may cause a mismatch of non-deterministic values if the stub
/// creates any non-deterministic value.
/// The execution path may also differ, which can be used to refine the stub
/// logic.

#[test]
fn kani_concrete_playback_t_res_u8_u16_5131535678093524874() {
    let concrete_vals: Vec<Vec<u8>> = vec![
        // 1
        vec![1],
        // 1
        vec![1],
        // 1ul
        vec![1, 0, 0, 0, 0, 0, 0, 0],
    ];
    kani::concrete_playback_run(concrete_vals, t_res_u8_u16);
}
/// Test generated for harness `c02::q::t_res_u8_u16` 
///
/// Check for `assertion`: ""C02: encoded byte differs from the reference encoding""
///
/// # Warning
///
/// Concrete playback tests combined with stubs or contracts is highly
/// experimental, and subject to change.
///
/// The original harness has stubs which are not applied to this test.
/// This may cause a mismatch of non-deterministic values if the stub
/// creates any non-deterministic value.
/// The execution path may also differ, which can be used to refine the stub
/// logic.

#[test]
fn kani_concrete_playback_t_res_u8_u16_12564314202966799492() {
    let concrete_vals: Vec<Vec<u8>> = vec![
        // 0
        vec![0],
        // 0
        vec![0, 0],
        // 0ul
        vec![0, 0, 0, 0, 0, 0, 0, 0],
    ];
    kani::concrete_playback_run(concrete_vals, t_res_u8_u16);
}
/// Test generated for harness `c02::q::t_res_u8_u16` 
///
/// Check for `assertion`: ""C02: reader did not consume exactly the reference bytes""
///
/// # Warning
///
/// Concrete playback tests combined with stubs or contracts is highly
/// experimental, and subject to change.
///
/// The original harness has stubs which are not applied to this test.
/// This may cause a mismatch of non-deterministic values if the stub
/// creates any non-deterministic value.
/// The execution path may also differ, which can be used to refine the stub
/// logic.

#[test]
fn kani_concrete_playback_t_res_u8_u16_13389054430532309842() {
    let concrete_vals: Vec<Vec<u8>> = vec![
        // 0
        vec![0],
        // 65280
        vec![0, 255],
        // 1ul
        vec![1, 0, 0, 0, 0, 0, 0, 0],
    ];
    kani::concrete_playback_run(concrete_vals, t_res_u8_u16);
}
