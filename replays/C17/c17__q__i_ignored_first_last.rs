// property=C17 crate=kani harness=c17::q::i_ignored_first_last test=kani_concrete_playback_i_ignored_first_last_4761874521826310932
// Concrete counterexample produced by CBMC; replay with: ./check C17 --replay /verif/replays/C17/c17__q__i_ignored_first_last.rs
/// Test generated for harness `c17::q::i_ignored_first_last` 
///
/// Check for `assertion`: ""C17: introspect_child(i).is_some() disagrees with i < introspect_len()""
///
/// # Warning
///
/// Concrete playback tests combined with stubs or contracts is highly
/// experimental, and subject to change.
///
/// The original harness has stubs which are not applied to this test.
/// This may cause a mismatch of non-deterministic values if the stub
/// creates any non-deterministic value.
/// The execution path may also differ, which can be used to refine the stub
/// logic.

#[test]
fn kani_concrete_playback_i_ignored_first_last_4761874521826310932() {
    let concrete_vals: Vec<Vec<u8>> = vec![
        // 0
        vec![0],
        // 0
        vec![0, 0],
        // 0
        vec![0, 0],
        // 0
        vec![0, 0, 0, 0],
        // 0
        vec![0],
        // 1ul
        vec![1, 0, 0, 0, 0, 0, 0, 0],
    ];
    kani::concrete_playback_run(concrete_vals, i_ignored_first_last);
}
