//! C08 I/O faults and chunking (narrowed per DESIGN R13: error-free schedules, WriteZero and EOF).
use crate::common::*;
use crate::props::*;
use crate::vt::*;
use savefile::prelude::*;

macro_rules! wf_harness {
    ($name:ident, $t:ty, $unwind:expr, $len:expr) => {
        kproof!($name, $unwind, {
            write_fault_check::<$t>($len);
            kani::cover!(true, "reached end");
        });
    };
}
macro_rules! rc_harness {
    ($name:ident, $t:ty, $unwind:expr, $len:expr) => {
        kproof!($name, $unwind, {
            read_chunk_check::<$t>($len);
            kani::cover!(true, "reached end");
        });
    };
}
pub mod q {
    use super::*;
    use crate::dtypes::*;
    pub mod w {
        use super::*;
        wf_harness!(u32_, u32, 6, 0);
        wf_harness!(u64_, u64, 10, 0);
        wf_harness!(tup, (u8, u16), 6, 0);
        wf_harness!(string, String, 10, 2);
        wf_harness!(vec_u16, Vec<u16>, 10, 2);
        wf_harness!(s_padded, SqPaddedC, 6, 0);
        wf_harness!(s_packed, SqPackedC, 10, 0);
        wf_harness!(e_data, EqData, 6, 0);
        wf_harness!(arr_packed, [u16; 3], 8, 0);
        wf_harness!(arr_bool, [bool; 2], 6, 0);
        wf_harness!(boxslice, Box<[u32]>, 10, 2);
    }
    pub mod r {
        use super::*;
        rc_harness!(u32_, u32, 6, 0);
        rc_harness!(u64_, u64, 10, 0);
        rc_harness!(tup, (u8, u16), 6, 0);
        rc_harness!(s_padded, SqPaddedC, 6, 0);
        rc_harness!(s_packed, SqPackedC, 10, 0);
        rc_harness!(e_data, EqData, 6, 0);
    }
}
pub mod t {
    use super::*;
    use crate::dtypes::*;
    pub mod w {
        use super::*;
        wf_harness!(u128_, u128, 18, 0);
        wf_harness!(opt, Option<u32>, 6, 0);
        wf_harness!(vec_usize, Vec<usize>, 10, 2);
        wf_harness!(s_mixed, SqMixed, 10, 1);
        wf_harness!(s_nested, SqNested, 18, 0);
        wf_harness!(e_u16, EqU16, 6, 0);
    }
    pub mod r {
        use super::*;
        rc_harness!(opt, Option<u32>, 6, 0);
        rc_harness!(arr, [u16; 3], 8, 0);
        rc_harness!(s_nested, SqNested, 18, 0);
        rc_harness!(e_u16, EqU16, 6, 0);
    }
}
/// Heap-backed values through the chunked reader: the length prefix read at a symbolic chunk position
/// makes the allocation size symbolic for CBMC; these finish only sometimes (300-900 s) or not at all.
/// Kept for manual runs; not part of any tier.
pub mod x {
    use super::*;
    rc_harness!(vec_u16_1, Vec<u16>, 10, 1);
    rc_harness!(vec_u16_2, Vec<u16>, 10, 2);
    rc_harness!(string1, String, 10, 1);
}
