//! GENERATED from /repo/savefile-abi/src/lib.rs (verify_compatiblity).
pub const LEDGER_VERSION: u32 = 2;
pub const LEDGER_LOAD_VERSION: u32 = 2;
