//! C02 wire-format conformance (see props::wire_check).
use crate::common::*;
use crate::props::*;
use crate::vt::*;
use savefile::prelude::*;

macro_rules! wire_harness {
    ($name:ident, $t:ty, $unwind:expr, $len:expr) => {
        kproof!($name, $unwind, {
            wire_check::<$t>($len);
            kani::cover!(true, "reached end");
        });
    };
}
instantiate_catalogue!(wire_harness);
instantiate_derived!(wire_harness);
