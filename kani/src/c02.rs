//! C02 wire-format conformance: real `bare_serialize` bytes == reference bytes at a symbolic
//! index; real `bare_deserialize` of reference bytes == value and consumes exactly those bytes.
use crate::common::*;
use crate::vt::*;
use savefile::prelude::*;

macro_rules! wire_harness {
    ($name:ident, $t:ty, $unwind:expr, $len:expr) => {
        kproof!($name, $unwind, {
            set_len($len);
            let x: $t = <$t as VT>::any();
            let mut r = RefBuf::new();
            x.enc(&mut r);
            let (buf, n) = ser::<$t, REFCAP>(&x, 0).unwrap();
            assert!(n == r.n, "C02: encoded length differs from the reference encoding");
            let i: usize = kani::any();
            kani::assume(i < r.n);
            assert!(buf[i] == r.b[i], "C02: encoded byte differs from the reference encoding");
            let (y, left) = de::<$t>(&r.b[..r.n], 0).unwrap();
            assert!(left == 0, "C02: reader did not consume exactly the reference bytes");
            assert!(x.same(&y), "C02: value read from reference bytes differs");
            std::mem::forget(x);
            std::mem::forget(y);
            kani::cover!(true, "reached end");
        });
    };
}
instantiate_catalogue!(wire_harness);
instantiate_derived!(wire_harness);
