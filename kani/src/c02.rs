//! C02 wire-format conformance (see props::wire_check).
use crate::common::*;
use crate::props::*;
use crate::vt::*;
use savefile::prelude::*;

macro_rules! wire_harness {
    ($name:ident, $t:ty, $unwind:expr, $len:expr) => {
        kproof!($name, $unwind, {
            wire_check::<$t>($len);
            kani::cover!(true, "reached end");
        });
    };
}
instantiate_catalogue!(wire_harness);
instantiate_derived!(wire_harness);

/// Header layout of the schema-less container: "savefile\0" ‖ format version 2 (u16 LE) ‖ data version (u32 LE,
/// symbolic) ‖ compression flag 0 ‖ reference encoding of the value.
macro_rules! hdr_harness {
    ($name:ident, $t:ty, $len:expr) => {
        kproof!($name, 11, {
            set_len($len);
            let x: $t = <$t as VT>::any();
            let ver: u32 = kani::any();
            let mut r = RefBuf::new();
            r.put(b"savefile\0");
            r.put(&2u16.to_le_bytes());
            r.put(&ver.to_le_bytes());
            r.put(&[0u8]);
            x.enc(&mut r);
            let mut buf = [0u8; REFCAP];
            let n;
            {
                let mut cur = std::io::Cursor::new(&mut buf[..]);
                save_noschema(&mut cur, ver, &x).unwrap();
                n = cur.position() as usize;
            }
            assert!(n == r.n, "C02: save_noschema output length differs from header + reference encoding");
            let i: usize = kani::any();
            kani::assume(i < r.n);
            assert!(buf[i] == r.b[i], "C02: save_noschema output byte differs from the documented header / reference encoding");
            // data written to the frozen layout is readable by this build
            let mut rd: &[u8] = &r.b[..r.n];
            let y: $t = load_noschema(&mut rd, ver).unwrap();
            assert!(rd.len() == 0 && x.same(&y), "C02: a file in the documented layout is not read back to the value");
            std::mem::forget(x);
            std::mem::forget(y);
            kani::cover!(true, "reached end");
        });
    };
}
/// Net types in the quick tier (the catalogue keeps them in `t` because the packed-image / Vec harness
/// families of C04 would be instantiated for them as well): V4 and V6 socket addresses, both IpAddr variants.
pub mod nq {
    use super::*;
    wire_harness!(n_socketaddr_v4, std::net::SocketAddr, 18, 0);
    wire_harness!(n_socketaddr_v6, std::net::SocketAddr, 30, 1);
    wire_harness!(n_ipaddr, std::net::IpAddr, 18, 0);
}
pub mod hq {
    use super::*;
    use crate::dtypes::*;
    hdr_harness!(h_u32, u32, 0);
    hdr_harness!(h_struct, SqPaddedC, 0);
    hdr_harness!(h_vec_u16, Vec<u16>, 2);
}
pub mod ht {
    use super::*;
    use crate::dtypes::*;
    hdr_harness!(h_string, String, 2);
    hdr_harness!(h_enum, EqData, 0);
    hdr_harness!(h_opt, Option<u8>, 0);
    hdr_harness!(h_unit, (), 0);
}
