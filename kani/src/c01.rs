//! C01 round-trip fidelity: value -> real serializer -> real deserializer == value, and the
//! reader consumes exactly what the writer produced. Bare codec for the whole catalogue;
//! header containers (save_noschema / save with schema) for representative types.
use crate::common::*;
use crate::props::*;
use crate::vt::*;
use savefile::prelude::*;
use std::io::Cursor;

macro_rules! rt_harness {
    ($name:ident, $t:ty, $unwind:expr, $len:expr) => {
        kproof!($name, $unwind, {
            roundtrip_check::<$t>($len);
            kani::cover!(true, "reached end");
        });
    };
}
instantiate_catalogue!(rt_harness);
instantiate_derived!(rt_harness);

/// save_noschema -> load_noschema through the real header code, symbolic version number.
macro_rules! noschema_harness {
    ($name:ident, $t:ty, $unwind:expr, $len:expr) => {
        kproof!($name, $unwind, {
            set_len($len);
            let x: $t = <$t as VT>::any();
            let ver: u32 = kani::any();
            let mut buf = [0u8; 128];
            let n;
            {
                let mut cur = Cursor::new(&mut buf[..]);
                save_noschema(&mut cur, ver, &x).unwrap();
                n = cur.position() as usize;
            }
            let mut rd = Cursor::new(&buf[..n]);
            let y: $t = load_noschema(&mut rd, ver).unwrap();
            assert!(rd.position() as usize == n, "C01: load_noschema did not consume exactly the saved bytes");
            assert!(x.same(&y), "C01: load_noschema(save_noschema(x)) != x");
            std::mem::forget(x);
            std::mem::forget(y);
            kani::cover!(true, "reached end");
        });
    };
}
/// save -> load with the schema section (schema written, read back, compared by diff_schema).
macro_rules! schema_harness {
    ($name:ident, $t:ty, $unwind:expr, $len:expr) => {
        kproof!($name, $unwind, {
            set_len($len);
            let x: $t = <$t as VT>::any();
            let mut buf = [0u8; 512];
            let n;
            {
                let mut cur = Cursor::new(&mut buf[..]);
                save(&mut cur, 0, &x).unwrap();
                n = cur.position() as usize;
            }
            let mut rd = Cursor::new(&buf[..n]);
            let y: $t = load(&mut rd, 0).unwrap();
            assert!(rd.position() as usize == n, "C01: load did not consume exactly the saved bytes");
            assert!(x.same(&y), "C01: load(save(x)) != x");
            std::mem::forget(x);
            std::mem::forget(y);
            kani::cover!(true, "reached end");
        });
    };
}
pub mod cq {
    use super::*;
    use crate::dtypes::*;
    noschema_harness!(ns_u32, u32, 11, 0);
    noschema_harness!(ns_string, String, 11, 2);
    noschema_harness!(ns_vec_u32, Vec<u32>, 11, 2);
    noschema_harness!(ns_struct, SqPaddedC, 11, 0);
    noschema_harness!(ns_enum, EqData, 11, 0);
    schema_harness!(ws_u32, u32, 11, 0);
    schema_harness!(ws_i64, i64, 11, 0);
    schema_harness!(ws_bool, bool, 11, 0);
}
pub mod ct {
    use super::*;
    use crate::dtypes::*;
    noschema_harness!(ns_opt, Option<u16>, 11, 0);
    noschema_harness!(ns_vec_string, Vec<String>, 11, 2);
    noschema_harness!(ns_nested, SqNestedPad, 11, 0);
}

/// Time types, bounded (the full 2^64-second range needs 128-bit division by 10^9, which CBMC's
/// bit-blasting does not finish: 16-bit seconds take ~10 min): seconds < 2^16, every nanosecond value.
/// save/load *with schema section* for anything but a primitive does not finish (R17 and schema depth);
/// kept for manual runs, in no tier.
pub mod cx {
    use super::*;
    use crate::dtypes::*;
    schema_harness!(ws_vec_u16, Vec<u16>, 11, 1);
    schema_harness!(ws_enum, EqU8, 11, 0);
    schema_harness!(ws_opt, Option<u8>, 11, 0);
    schema_harness!(ws_struct, SqPackedC, 11, 0);
}
pub mod tt {
    use super::*;
    kproof!(duration_secs16, 4, {
        let secs: u64 = kani::any();
        let nanos: u32 = kani::any();
        kani::assume(nanos < 1_000_000_000 && secs < (1u64 << 16));
        let d = std::time::Duration::new(secs, nanos);
        let (buf, n) = ser::<std::time::Duration, 32>(&d, 0).unwrap();
        assert!(n == 16, "C01: Duration is written as 16 bytes");
        let (y, left) = de::<std::time::Duration>(&buf[..n], 0).unwrap();
        assert!(left == 0 && y == d, "C01: Duration does not round-trip");
        kani::cover!(true, "reached end");
    });
    kproof!(systemtime_secs12, 4, {
        let secs: u64 = kani::any();
        let nanos: u32 = kani::any();
        let before: bool = kani::any();
        kani::assume(nanos < 1_000_000_000 && secs < (1u64 << 12));
        let d = std::time::Duration::new(secs, nanos);
        let t = if before { std::time::SystemTime::UNIX_EPOCH - d } else { std::time::SystemTime::UNIX_EPOCH + d };
        let (buf, n) = ser::<std::time::SystemTime, 32>(&t, 0).unwrap();
        assert!(n == 16, "C01: SystemTime is written as 16 bytes");
        let (y, left) = de::<std::time::SystemTime>(&buf[..n], 0).unwrap();
        assert!(left == 0 && y == t, "C01: SystemTime does not round-trip");
        kani::cover!(true, "reached end");
    });
}
