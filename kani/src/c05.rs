//! C05 schema and header gate.
//!  hdr::*   — 16 symbolic header bytes (magic, library format version, data version, compression
//!             flag) in front of a payload: load / load_noschema is Ok  <=>  magic ok ∧ lib version <= 2
//!             ∧ file version <= memory version ∧ not compressed; never a panic.
//!  pair::*  — save(x: T) loaded as U: different wire class => Err(IncompatibleSchema) (never a value,
//!             never a panic); same wire class (names differ) => Ok with the same encoding.
//! Types with enum schemas are outside (DESIGN R14).
use crate::common::*;
use crate::props::*;
use crate::vt::*;
use savefile::prelude::*;
use std::io::Cursor;

const MAGIC: [u8; 9] = *b"savefile\0";

pub mod hdr {
    use super::*;
    kproof!(noschema_u32, 11, {
        let hdr: [u8; 16] = kani::any();
        let pay: [u8; 4] = kani::any();
        let memver: u32 = kani::any();
        let mut file = [0u8; 20];
        file[..16].copy_from_slice(&hdr);
        file[16..].copy_from_slice(&pay);
        let magic_ok = hdr[0] == MAGIC[0] && hdr[1] == MAGIC[1] && hdr[2] == MAGIC[2] && hdr[3] == MAGIC[3] && hdr[4] == MAGIC[4]
            && hdr[5] == MAGIC[5] && hdr[6] == MAGIC[6] && hdr[7] == MAGIC[7] && hdr[8] == MAGIC[8];
        let libver = u16::from_le_bytes([hdr[9], hdr[10]]);
        let filever = u32::from_le_bytes([hdr[11], hdr[12], hdr[13], hdr[14]]);
        let expect_ok = magic_ok && libver <= 2 && filever <= memver && hdr[15] == 0;
        let mut rd: &[u8] = &file;
        match load_noschema::<u32>(&mut rd, memver) {
            Ok(v) => {
                assert!(expect_ok, "C05: a file with wrong magic / newer library format / newer data version / unsupported compression was accepted");
                assert!(v == u32::from_le_bytes(pay), "C05: payload misread");
            }
            Err(e) => {
                assert!(!expect_ok, "C05: a file with a valid header was rejected");
                std::mem::forget(e);
            }
        }
        kani::cover!(expect_ok, "valid header reachable");
        kani::cover!(true, "reached end");
    });
    kproof!(schema_u32, 11, {
        let hdr: [u8; 16] = kani::any();
        let pay: [u8; 4] = kani::any();
        let memver: u32 = kani::any();
        let mut file = [0u8; 22];
        file[..16].copy_from_slice(&hdr);
        file[16] = 3; // Schema::Primitive
        file[17] = 6; // schema_u32
        file[18..].copy_from_slice(&pay);
        let magic_ok = hdr[0] == MAGIC[0] && hdr[1] == MAGIC[1] && hdr[2] == MAGIC[2] && hdr[3] == MAGIC[3] && hdr[4] == MAGIC[4]
            && hdr[5] == MAGIC[5] && hdr[6] == MAGIC[6] && hdr[7] == MAGIC[7] && hdr[8] == MAGIC[8];
        let libver = u16::from_le_bytes([hdr[9], hdr[10]]);
        let filever = u32::from_le_bytes([hdr[11], hdr[12], hdr[13], hdr[14]]);
        let expect_ok = magic_ok && libver <= 2 && filever <= memver && hdr[15] == 0;
        let mut rd: &[u8] = &file;
        match load::<u32>(&mut rd, memver) {
            Ok(v) => {
                assert!(expect_ok, "C05: a file with wrong magic / newer library format / newer data version / unsupported compression was accepted");
                assert!(v == u32::from_le_bytes(pay), "C05: payload misread");
            }
            Err(e) => {
                assert!(!expect_ok, "C05: a file with a valid header and matching schema was rejected");
                std::mem::forget(e);
            }
        }
        kani::cover!(expect_ok, "valid header reachable");
        kani::cover!(true, "reached end");
    });
}

/// save(x: T) -> load::<U>
pub fn pair_check<T: VT + Serialize + WithSchema, U: VT + Deserialize + WithSchema>(same_class: bool, len: usize) {
    set_len(len);
    let x: T = T::any();
    let mut buf = [0u8; 512];
    let n;
    {
        let mut cur = Cursor::new(&mut buf[..]);
        save(&mut cur, 0, &x).unwrap();
        n = cur.position() as usize;
    }
    let mut rd: &[u8] = &buf[..n];
    let res = load::<U>(&mut rd, 0);
    if same_class {
        let y = res.unwrap();
        let (mut r1, mut r2) = (RefBuf::new(), RefBuf::new());
        x.enc(&mut r1);
        y.enc(&mut r2);
        assert!(r1.n == r2.n && rd.len() == 0, "C05: wire-identical type loaded with a different amount of data");
        let i: usize = anyv::<usize>();
        assume(i < r1.n);
        assert!(r1.b[i] == r2.b[i], "C05: wire-identical type loaded to a different value");
        std::mem::forget(y);
    } else {
        match res {
            Ok(y) => {
                std::mem::forget(y);
                panic!("C05: data saved from a type with a different wire layout was loaded instead of being rejected");
            }
            Err(SavefileError::IncompatibleSchema { message }) => std::mem::forget(message),
            Err(e) => {
                std::mem::forget(e);
                panic!("C05: mismatching schema was rejected with an error other than IncompatibleSchema");
            }
        }
    }
    std::mem::forget(x);
}
macro_rules! pair_harness {
    ($name:ident, $t:ty, $u:ty, $same:expr, $len:expr) => {
        kproof!($name, 11, {
            pair_check::<$t, $u>($same, $len);
            kani::cover!(true, "reached end");
        });
    };
}
/// same-layout structs with different struct / field names
#[derive(Savefile)]
pub struct RenamedPacked { pub alpha: u32, pub beta: u32 }
#[derive(Savefile)]
pub struct RenamedPadded(pub u8, pub u32);
impl VT for RenamedPacked {
    fn any() -> Self { RenamedPacked { alpha: anyv::<u32>(), beta: anyv::<u32>() } }
    fn enc(&self, out: &mut RefBuf) { self.alpha.enc(out); self.beta.enc(out); }
    fn same(&self, o: &Self) -> bool { self.alpha == o.alpha && self.beta == o.beta }
}
impl VT for RenamedPadded {
    fn any() -> Self { RenamedPadded(anyv::<u8>(), anyv::<u32>()) }
    fn enc(&self, out: &mut RefBuf) { self.0.enc(out); self.1.enc(out); }
    fn same(&self, o: &Self) -> bool { self.0 == o.0 && self.1 == o.1 }
}
pub mod pair {
    use super::*;
    use crate::dtypes::*;
    pub mod q {
        use super::*;
        pair_harness!(u32_u32, u32, u32, true, 0);
        pair_harness!(u32_i32, u32, i32, false, 0);
        pair_harness!(u32_u64, u32, u64, false, 0);
        pair_harness!(u32_opt_u32, u32, Option<u32>, false, 0);
        pair_harness!(i32_u32, i32, u32, false, 0);
        pair_harness!(u8_bool, u8, bool, false, 0);
        pair_harness!(char_u32, char, u32, false, 0);
        pair_harness!(f32_u32, f32, u32, false, 0);
        pair_harness!(u64_i64, u64, i64, false, 0);
        pair_harness!(usize_u64, usize, u64, true, 0);
        pair_harness!(i8_u8, i8, u8, false, 0);
        pair_harness!(u16_u16, u16, u16, true, 0);
    }
    pub mod t {
        use super::*;
        pair_harness!(u128_i128, u128, i128, false, 0);
        pair_harness!(f64_u64, f64, u64, false, 0);
        pair_harness!(bool_u8, bool, u8, false, 0);
        pair_harness!(isize_i64, isize, i64, true, 0);
        pair_harness!(u8_opt_u8, u8, Option<u8>, false, 0);
    }
    /// Out of reach here (timeout 600 s / OOM): pairs whose *saved* type has a schema of depth >= 2
    /// (struct, array, Option, Vec): writing and re-reading such a schema section inside load() on top of
    /// the payload codec exceeds what CBMC finishes. The comparison arms themselves are decided by C13.
    pub mod x {
        use super::*;
        pair_harness!(opt_u32_u32, Option<u32>, u32, false, 0);
        pair_harness!(u32_vec_u32, u32, Vec<u32>, false, 1);
        pair_harness!(u32_box_u32, u32, Box<u32>, true, 0);
        pair_harness!(vec_u32_u32, Vec<u32>, u32, false, 1);
        pair_harness!(arr2_arr3, [u16; 2], [u16; 3], false, 0);
        pair_harness!(arr2_arr2, [u16; 2], [u16; 2], true, 0);
        pair_harness!(packed_renamed, SqPackedC, RenamedPacked, true, 0);
        pair_harness!(packed_padded, SqPackedC, SqPaddedC, false, 0);
        pair_harness!(padded_renamed, SqPaddedC, RenamedPadded, true, 0);
        pair_harness!(tuple_struct, (u32, u32), SqPackedC, true, 0);
        pair_harness!(string_vec_u8, String, Vec<u8>, false, 1);
        pair_harness!(vec_u32_boxslice, Vec<u32>, Box<[u32]>, true, 2);
        pair_harness!(arr2_tuple, [u16; 2], (u16, u16), false, 0);
        pair_harness!(tuple2_tuple3, (u8, u8), (u8, u8, u16), false, 0);
    }
}
