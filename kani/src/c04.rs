//! C04 packed fast path transparency.
//!  img::*  — Packed::repr_c_optimization_safe(v) == yes  ⇒  size_of == wire size ∧ image == encoding;
//!            single value bytes == reference whichever branch the derive-generated code takes.
//!  vec::*  — Vec<T> of two symbolic elements: bytes == 2u64 ‖ ref(x) ‖ ref(y) and the reference bytes
//!            load back to the same elements (bulk path and element path against the *same* reference).
//!  arr::* / bs::* / av::* — same for [T;2], Box<[T]>, ArrayVec<T,3>.
use crate::common::*;
use crate::props::*;
use crate::vt::*;
use savefile::prelude::*;

macro_rules! img_harness {
    ($name:ident, $t:ty, $unwind:expr, $len:expr) => {
        kproof!($name, $unwind, {
            image_check::<$t>($len);
            kani::cover!(true, "reached end");
        });
    };
}
macro_rules! vec_harness {
    ($name:ident, $t:ty, $unwind:expr, $len:expr) => {
        kproof!($name, 7, {
            wire_check::<Vec<$t>>(2);
            kani::cover!(true, "reached end");
        });
    };
}
macro_rules! arr_harness {
    ($name:ident, $t:ty, $unwind:expr, $len:expr) => {
        kproof!($name, 7, {
            wire_check::<[$t; 2]>(2);
            kani::cover!(true, "reached end");
        });
    };
}
macro_rules! bs_harness {
    ($name:ident, $t:ty, $unwind:expr, $len:expr) => {
        kproof!($name, 7, {
            wire_check::<Box<[$t]>>(2);
            kani::cover!(true, "reached end");
        });
    };
}
macro_rules! av_harness {
    ($name:ident, $t:ty, $unwind:expr, $len:expr) => {
        kproof!($name, 7, {
            wire_check::<arrayvec::ArrayVec<$t, 3>>(2);
            kani::cover!(true, "reached end");
        });
    };
}
pub mod img {
    use super::*;
    pub mod q { use super::*; use crate::dtypes::*; cat_dfixed_q!(img_harness); cat_dvar_q!(img_harness); cat_dseq_q!(img_harness, 1); cat_fixed_q!(img_harness); }
    pub mod t { use super::*; use crate::dtypes::*; cat_dfixed_t!(img_harness); cat_dvar_t!(img_harness); cat_dseq_t!(img_harness, 1); cat_fixed_t!(img_harness); }
}
pub mod vec {
    use super::*;
    pub mod q { use super::*; use crate::dtypes::*; cat_dfixed_q!(vec_harness); vec_harness!(d_EqDataU8C, EqDataU8C, 7, 2); vec_harness!(d_EqDataU32, EqDataU32, 7, 2); vec_harness!(d_SqMixed, SqMixed, 7, 2); vec_harness!(d_SqVec, SqVec, 7, 2); }
    pub mod t { use super::*; use crate::dtypes::*; cat_dfixed_t!(vec_harness); vec_harness!(d_EqData, EqData, 7, 2); vec_harness!(d_EqDataPad, EqDataPad, 7, 2); vec_harness!(d_SqOpt, SqOpt, 7, 2); vec_harness!(d_EqStr, EqStr, 7, 2); cat_dvar_t!(vec_harness); cat_dseq_t!(vec_harness, 2); cat_fixed_q!(vec_harness); cat_fixed_t!(vec_harness); }
}
pub mod arr {
    use super::*;
    pub mod q { use super::*; use crate::dtypes::*; arr_harness!(d_SqPackedC, SqPackedC, 7, 2); arr_harness!(d_SqPaddedC, SqPaddedC, 7, 2); arr_harness!(d_EqU8, EqU8, 7, 2); arr_harness!(d_EqDataU32, EqDataU32, 7, 2); }
    pub mod t { use super::*; use crate::dtypes::*; cat_dfixed_q!(arr_harness); cat_dfixed_t!(arr_harness); }
}
pub mod bs {
    use super::*;
    pub mod q { use super::*; use crate::dtypes::*; bs_harness!(d_SqPackedC, SqPackedC, 7, 2); bs_harness!(d_SqRust, SqRust, 7, 2); bs_harness!(d_EqU16, EqU16, 7, 2); }
    pub mod t { use super::*; use crate::dtypes::*; cat_dfixed_q!(bs_harness); }
}
pub mod av {
    use super::*;
    pub mod q { use super::*; use crate::dtypes::*; av_harness!(d_SqPackedC, SqPackedC, 7, 2); av_harness!(d_SqTailPadC, SqTailPadC, 7, 2); av_harness!(d_EqU32, EqU32, 7, 2); }
    pub mod t { use super::*; use crate::dtypes::*; cat_dfixed_q!(av_harness); }
}
