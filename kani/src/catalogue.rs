//! T — the catalogue of library value types (DESIGN §4). `$m!(harness_name, Type, unwind, len)`.
//! `cat_fixed_*`: types without strings/sequences (shape length irrelevant).
//! `cat_seq_*!(m, L)`: types containing strings/sequences, instantiated once per concrete length L.
#[macro_export]
macro_rules! cat_fixed_q {
    ($m:ident) => {
        $m!(t_u8, u8, 4, 0);
        $m!(t_i16, i16, 4, 0);
        $m!(t_u32, u32, 4, 0);
        $m!(t_i64, i64, 4, 0);
        $m!(t_u128, u128, 4, 0);
        $m!(t_i128, i128, 4, 0);
        $m!(t_i8, i8, 4, 0);
        $m!(t_usize, usize, 4, 0);
        $m!(t_isize, isize, 4, 0);
        $m!(t_bool, bool, 4, 0);
        $m!(t_char, char, 4, 0);
        $m!(t_f32, f32, 4, 0);
        $m!(t_f64, f64, 4, 0);
        $m!(t_opt_u32, Option<u32>, 4, 0);
        $m!(t_res_u8_u16, Result<u8, u16>, 4, 0);
        $m!(t_box_u16, Box<u16>, 4, 0);
        $m!(t_tup2, (u8, u32), 4, 0);
        $m!(t_tup3_packed, (u8, u8, u16), 4, 0);
        $m!(t_tup3_reorder_a, (u8, u16, u8), 4, 0);
        $m!(t_tup3_reorder_b, (u16, u32, u16), 4, 0);
        $m!(t_tup2_reorder, (u8, u16), 4, 0);
        $m!(t_tup2_same, (u16, u16), 4, 0);
        $m!(t_arr_u16_3, [u16; 3], 5, 0);
        $m!(t_arr_usize_2, [usize; 2], 5, 0);
        $m!(t_arr0, [u32; 0], 4, 0);
        $m!(t_unit, (), 4, 0);
    };
}
#[macro_export]
macro_rules! cat_fixed_t {
    ($m:ident) => {
        $m!(t_u16, u16, 4, 0);
        $m!(t_i32, i32, 4, 0);
        $m!(t_u64, u64, 4, 0);
        $m!(t_opt_opt_u8, Option<Option<u8>>, 4, 0);
        $m!(t_rc_u32, std::rc::Rc<u32>, 4, 0);
        $m!(t_arc_u32, std::sync::Arc<u32>, 4, 0);
        $m!(t_cell_u16, std::cell::Cell<u16>, 4, 0);
        $m!(t_refcell_u16, std::cell::RefCell<u16>, 4, 0);
        $m!(t_tup1, (u64,), 4, 0);
        $m!(t_tup3_c, (u32, u8, u8), 4, 0);
        $m!(t_tup3_d, (u8, u32, u8), 4, 0);
        $m!(t_tup3_e, (u16, u8, u8), 4, 0);
        $m!(t_tup3_f, (u32, u32, u32), 4, 0);
        $m!(t_tup3_g, (u8, u64, u8), 4, 0);
        $m!(t_tup3_h, (u16, u16, u32), 4, 0);
        $m!(t_tup2_b, (u32, u8), 4, 0);
        $m!(t_tup2_c, (u64, u64), 4, 0);
        $m!(t_tup3_bool, (bool, u8, u16), 4, 0);
        $m!(t_range_u32, std::ops::Range<u32>, 4, 0);
        $m!(t_arr_bool_2, [bool; 2], 5, 0);
        $m!(t_arr_char_1, [char; 1], 5, 0);
        $m!(t_phantom, std::marker::PhantomData<u64>, 4, 0);
        $m!(t_tup_nested, ((u8, u8), [u16; 2]), 5, 0);
        $m!(t_res_opt, Result<Option<u8>, (u8, u8)>, 4, 0);
        $m!(t_atomic_u8, std::sync::atomic::AtomicU8, 4, 0);
        $m!(t_atomic_i8, std::sync::atomic::AtomicI8, 4, 0);
        $m!(t_atomic_u16, std::sync::atomic::AtomicU16, 4, 0);
        $m!(t_atomic_i16, std::sync::atomic::AtomicI16, 4, 0);
        $m!(t_atomic_u32, std::sync::atomic::AtomicU32, 4, 0);
        $m!(t_atomic_i32, std::sync::atomic::AtomicI32, 4, 0);
        $m!(t_atomic_u64, std::sync::atomic::AtomicU64, 4, 0);
        $m!(t_atomic_i64, std::sync::atomic::AtomicI64, 4, 0);
        $m!(t_atomic_usize, std::sync::atomic::AtomicUsize, 4, 0);
        $m!(t_atomic_isize, std::sync::atomic::AtomicIsize, 4, 0);
        $m!(t_atomic_bool, std::sync::atomic::AtomicBool, 4, 0);
        $m!(t_ipaddr, std::net::IpAddr, 18, 0);
        $m!(t_socketaddr, std::net::SocketAddr, 18, 0);
        $m!(t_socketaddr_v6, std::net::SocketAddr, 30, 1);
    };
}
#[macro_export]
macro_rules! cat_seq_q {
    ($m:ident, $l:expr) => {
        $m!(t_string, String, 6, $l);
        $m!(t_vec_u32, Vec<u32>, 6, $l);
        $m!(t_vec_usize, Vec<usize>, 6, $l);
        $m!(t_vec_tup, Vec<(u8, u8)>, 6, $l);
        $m!(t_boxslice_u16, Box<[u16]>, 6, $l);
        $m!(t_vecdeque_u8, std::collections::VecDeque<u8>, 6, $l);
        $m!(t_arrayvec_u16, arrayvec::ArrayVec<u16, 3>, 6, $l);
        $m!(t_opt_string, Option<String>, 6, $l);
        $m!(t_arraystring2, arrayvec::ArrayString<2>, 6, $l);
    };
}
#[macro_export]
macro_rules! cat_seq_t {
    ($m:ident, $l:expr) => {
        $m!(t_res_unit_string, Result<(), String>, 6, $l);
        $m!(t_arr_string_2, [String; 2], 6, $l);
        $m!(t_vec_u8, Vec<u8>, 6, $l);
        $m!(t_vec_u64, Vec<u64>, 6, $l);
        $m!(t_vec_bool, Vec<bool>, 6, $l);
        $m!(t_vec_string, Vec<String>, 6, $l);
        $m!(t_vec_opt_u8, Vec<Option<u8>>, 6, $l);
        $m!(t_vec_vec_u8, Vec<Vec<u8>>, 6, $l);
        $m!(t_arcslice_u32, std::sync::Arc<[u32]>, 6, $l);
        $m!(t_boxslice_usize, Box<[usize]>, 6, $l);
        $m!(t_vecdeque_u32, std::collections::VecDeque<u32>, 6, $l);
        $m!(t_arrayvec_usize, arrayvec::ArrayVec<usize, 3>, 6, $l);
        $m!(t_opt_vec_u16, Option<Vec<u16>>, 6, $l);
        $m!(t_tup_str_u8, (String, u8), 6, $l);
        $m!(t_arraystring3, arrayvec::ArrayString<3>, 6, $l);
        $m!(t_arraystring1, arrayvec::ArrayString<1>, 6, $l);
    };
}
/// Standard layout of the harness modules of one property:
///   q::*        fixed-shape types, quick      q::l0|l1|l2::*   sequence types, quick
///   t::*        fixed-shape types, thorough   t::l0|l1|l2|l3::* sequence types, thorough (+ quick ones at l3)
#[macro_export]
macro_rules! instantiate_catalogue {
    ($m:ident) => {
        pub mod q {
            use super::*;
            cat_fixed_q!($m);
            pub mod l0 { use super::super::*; cat_seq_q!($m, 0); }
            pub mod l1 { use super::super::*; cat_seq_q!($m, 1); }
            pub mod l2 { use super::super::*; cat_seq_q!($m, 2); }
        }
        pub mod t {
            use super::*;
            cat_fixed_t!($m);
            pub mod l0 { use super::super::*; cat_seq_t!($m, 0); }
            pub mod l1 { use super::super::*; cat_seq_t!($m, 1); }
            pub mod l2 { use super::super::*; cat_seq_t!($m, 2); }
            pub mod l3 { use super::super::*; cat_seq_q!($m, 3); cat_seq_t!($m, 3); }
        }
    };
}
