//! Independent reference model of the documented savefile wire format (DESIGN §1).
//! Nothing in this file calls into savefile: little-endian fixed width primitives, usize/isize as
//! 64 bit, char as u32 scalar value, bool as one byte 0/1, u64 length prefix for strings and
//! sequences, one byte tag for Option (1 = Some) and Result (1 = Ok), fields/elements in
//! declaration order.
use std::collections::{BTreeMap, VecDeque};

pub const REFCAP: usize = 96;
pub struct RefBuf {
    pub b: [u8; REFCAP],
    pub n: usize,
}
impl RefBuf {
    pub fn new() -> RefBuf {
        RefBuf { b: [0u8; REFCAP], n: 0 }
    }
    #[inline(always)]
    pub fn put(&mut self, bytes: &[u8]) {
        let l = bytes.len();
        self.b[self.n..self.n + l].copy_from_slice(bytes);
        self.n += l;
    }
}

#[cfg(kani)]
pub fn anyv<T: kani::Arbitrary>() -> T {
    kani::any()
}
#[cfg(not(kani))]
pub fn anyv<T: Default>() -> T {
    T::default()
}
#[cfg(kani)]
pub fn assume(c: bool) {
    kani::assume(c)
}
#[cfg(not(kani))]
pub fn assume(_c: bool) {}

/// A value type of the catalogue: symbolic constructor, reference encoder, structural equality.
pub trait VT: Sized {
    fn any() -> Self;
    fn enc(&self, out: &mut RefBuf);
    fn same(&self, o: &Self) -> bool;
}

macro_rules! vt_int {
    ($($t:ty),*) => {$(
        impl VT for $t {
            fn any() -> Self { anyv::<$t>() }
            fn enc(&self, out: &mut RefBuf) { out.put(&self.to_le_bytes()) }
            fn same(&self, o: &Self) -> bool { *self == *o }
        }
    )*};
}
vt_int!(u8, i8, u16, i16, u32, i32, u64, i64, u128, i128);

impl VT for usize {
    fn any() -> Self { anyv::<usize>() }
    fn enc(&self, out: &mut RefBuf) { out.put(&(*self as u64).to_le_bytes()) }
    fn same(&self, o: &Self) -> bool { *self == *o }
}
impl VT for isize {
    fn any() -> Self { anyv::<isize>() }
    fn enc(&self, out: &mut RefBuf) { out.put(&(*self as i64).to_le_bytes()) }
    fn same(&self, o: &Self) -> bool { *self == *o }
}
impl VT for bool {
    fn any() -> Self { anyv::<bool>() }
    fn enc(&self, out: &mut RefBuf) { out.put(&[if *self { 1u8 } else { 0u8 }]) }
    fn same(&self, o: &Self) -> bool { *self == *o }
}
impl VT for char {
    fn any() -> Self { anyv::<char>() }
    fn enc(&self, out: &mut RefBuf) { out.put(&(*self as u32).to_le_bytes()) }
    fn same(&self, o: &Self) -> bool { *self == *o }
}
impl VT for f32 {
    fn any() -> Self { f32::from_bits(anyv::<u32>()) }
    fn enc(&self, out: &mut RefBuf) { out.put(&self.to_bits().to_le_bytes()) }
    fn same(&self, o: &Self) -> bool { self.to_bits() == o.to_bits() }
}
impl VT for f64 {
    fn any() -> Self { f64::from_bits(anyv::<u64>()) }
    fn enc(&self, out: &mut RefBuf) { out.put(&self.to_bits().to_le_bytes()) }
    fn same(&self, o: &Self) -> bool { self.to_bits() == o.to_bits() }
}
impl VT for () {
    fn any() -> Self {}
    fn enc(&self, _out: &mut RefBuf) {}
    fn same(&self, _o: &Self) -> bool { true }
}
impl<T> VT for std::marker::PhantomData<T> {
    fn any() -> Self { std::marker::PhantomData }
    fn enc(&self, _out: &mut RefBuf) {}
    fn same(&self, _o: &Self) -> bool { true }
}

/// Shape parameter (R5/R12): the length of every string and sequence built by `VT::any()` in the
/// current harness. Concrete per harness — a symbolic-length memcpy makes CBMC both slow and
/// imprecise (spurious, non-replayable counterexamples were observed), so lengths are enumerated
/// by the catalogue (modules l0, l1, l2, l3) and only contents are symbolic.
pub static mut LEN: usize = 0;
pub fn set_len(l: usize) {
    unsafe { LEN = l }
}
pub fn shape_len() -> usize {
    unsafe { LEN }
}
fn any_ascii() -> u8 {
    let a: u8 = anyv::<u8>();
    assume(a < 128);
    a
}
/// ASCII string with symbolic content, length = shape_len() (<= 3).
pub fn any_ascii_string() -> String {
    match shape_len() {
        0 => String::new(),
        1 => unsafe { String::from_utf8_unchecked(vec![any_ascii()]) },
        2 => unsafe { String::from_utf8_unchecked(vec![any_ascii(), any_ascii()]) },
        _ => unsafe { String::from_utf8_unchecked(vec![any_ascii(), any_ascii(), any_ascii()]) },
    }
}
impl VT for String {
    fn any() -> Self { any_ascii_string() }
    fn enc(&self, out: &mut RefBuf) {
        let by = self.as_bytes();
        out.put(&(by.len() as u64).to_le_bytes());
        let mut i = 0;
        while i < by.len() {
            out.put(&[by[i]]);
            i += 1;
        }
    }
    fn same(&self, o: &Self) -> bool {
        let (a, b) = (self.as_bytes(), o.as_bytes());
        if a.len() != b.len() { return false; }
        let mut i = 0;
        while i < a.len() {
            if a[i] != b[i] { return false; }
            i += 1;
        }
        true
    }
}
impl<T: VT> VT for Option<T> {
    fn any() -> Self { if anyv::<bool>() { Some(T::any()) } else { None } }
    fn enc(&self, out: &mut RefBuf) {
        match self {
            Some(x) => { out.put(&[1u8]); x.enc(out) }
            None => out.put(&[0u8]),
        }
    }
    fn same(&self, o: &Self) -> bool {
        match (self, o) { (Some(a), Some(b)) => a.same(b), (None, None) => true, _ => false }
    }
}
impl<T: VT, E: VT> VT for Result<T, E> {
    fn any() -> Self { if anyv::<bool>() { Ok(T::any()) } else { Err(E::any()) } }
    fn enc(&self, out: &mut RefBuf) {
        match self {
            Ok(x) => { out.put(&[1u8]); x.enc(out) }
            Err(x) => { out.put(&[0u8]); x.enc(out) }
        }
    }
    fn same(&self, o: &Self) -> bool {
        match (self, o) { (Ok(a), Ok(b)) => a.same(b), (Err(a), Err(b)) => a.same(b), _ => false }
    }
}
impl<T: VT> VT for Box<T> {
    fn any() -> Self { Box::new(T::any()) }
    fn enc(&self, out: &mut RefBuf) { (**self).enc(out) }
    fn same(&self, o: &Self) -> bool { (**self).same(&**o) }
}
impl<T: VT> VT for std::rc::Rc<T> {
    fn any() -> Self { std::rc::Rc::new(T::any()) }
    fn enc(&self, out: &mut RefBuf) { (**self).enc(out) }
    fn same(&self, o: &Self) -> bool { (**self).same(&**o) }
}
impl<T: VT> VT for std::sync::Arc<T> {
    fn any() -> Self { std::sync::Arc::new(T::any()) }
    fn enc(&self, out: &mut RefBuf) { (**self).enc(out) }
    fn same(&self, o: &Self) -> bool { (**self).same(&**o) }
}
impl<T: VT + Copy> VT for std::cell::Cell<T> {
    fn any() -> Self { std::cell::Cell::new(T::any()) }
    fn enc(&self, out: &mut RefBuf) { self.get().enc(out) }
    fn same(&self, o: &Self) -> bool { self.get().same(&o.get()) }
}
impl<T: VT> VT for std::cell::RefCell<T> {
    fn any() -> Self { std::cell::RefCell::new(T::any()) }
    fn enc(&self, out: &mut RefBuf) { self.borrow().enc(out) }
    fn same(&self, o: &Self) -> bool { self.borrow().same(&*o.borrow()) }
}
impl<A: VT> VT for (A,) {
    fn any() -> Self { (A::any(),) }
    fn enc(&self, out: &mut RefBuf) { self.0.enc(out) }
    fn same(&self, o: &Self) -> bool { self.0.same(&o.0) }
}
impl<A: VT, B: VT> VT for (A, B) {
    fn any() -> Self { (A::any(), B::any()) }
    fn enc(&self, out: &mut RefBuf) { self.0.enc(out); self.1.enc(out) }
    fn same(&self, o: &Self) -> bool { self.0.same(&o.0) && self.1.same(&o.1) }
}
impl<A: VT, B: VT, C: VT> VT for (A, B, C) {
    fn any() -> Self { (A::any(), B::any(), C::any()) }
    fn enc(&self, out: &mut RefBuf) { self.0.enc(out); self.1.enc(out); self.2.enc(out) }
    fn same(&self, o: &Self) -> bool { self.0.same(&o.0) && self.1.same(&o.1) && self.2.same(&o.2) }
}
impl<A: VT, B: VT, C: VT, D: VT> VT for (A, B, C, D) {
    fn any() -> Self { (A::any(), B::any(), C::any(), D::any()) }
    fn enc(&self, out: &mut RefBuf) { self.0.enc(out); self.1.enc(out); self.2.enc(out); self.3.enc(out) }
    fn same(&self, o: &Self) -> bool { self.0.same(&o.0) && self.1.same(&o.1) && self.2.same(&o.2) && self.3.same(&o.3) }
}
impl<T: VT> VT for std::ops::Range<T> {
    fn any() -> Self { T::any()..T::any() }
    fn enc(&self, out: &mut RefBuf) { self.start.enc(out); self.end.enc(out) }
    fn same(&self, o: &Self) -> bool { self.start.same(&o.start) && self.end.same(&o.end) }
}
impl<T: VT> VT for [T; 0] {
    fn any() -> Self { [] }
    fn enc(&self, _out: &mut RefBuf) {}
    fn same(&self, _o: &Self) -> bool { true }
}
impl<T: VT> VT for [T; 1] {
    fn any() -> Self { [T::any()] }
    fn enc(&self, out: &mut RefBuf) { self[0].enc(out) }
    fn same(&self, o: &Self) -> bool { self[0].same(&o[0]) }
}
impl<T: VT> VT for [T; 2] {
    fn any() -> Self { [T::any(), T::any()] }
    fn enc(&self, out: &mut RefBuf) { self[0].enc(out); self[1].enc(out) }
    fn same(&self, o: &Self) -> bool { self[0].same(&o[0]) && self[1].same(&o[1]) }
}
impl<T: VT> VT for [T; 3] {
    fn any() -> Self { [T::any(), T::any(), T::any()] }
    fn enc(&self, out: &mut RefBuf) { self[0].enc(out); self[1].enc(out); self[2].enc(out) }
    fn same(&self, o: &Self) -> bool { self[0].same(&o[0]) && self[1].same(&o[1]) && self[2].same(&o[2]) }
}

/// Sequence helpers: length = shape_len() (<= 3), elements symbolic.
pub fn any_vec<T: VT>() -> Vec<T> {
    match shape_len() {
        0 => Vec::new(),
        1 => vec![T::any()],
        2 => vec![T::any(), T::any()],
        _ => vec![T::any(), T::any(), T::any()],
    }
}
pub fn enc_seq<T: VT>(items: &[T], out: &mut RefBuf) {
    out.put(&(items.len() as u64).to_le_bytes());
    let mut i = 0;
    while i < items.len() {
        items[i].enc(out);
        i += 1;
    }
}
pub fn same_seq<T: VT>(a: &[T], b: &[T]) -> bool {
    if a.len() != b.len() { return false; }
    let mut i = 0;
    while i < a.len() {
        if !a[i].same(&b[i]) { return false; }
        i += 1;
    }
    true
}
impl<T: VT> VT for Vec<T> {
    fn any() -> Self { any_vec::<T>() }
    fn enc(&self, out: &mut RefBuf) { enc_seq(self, out) }
    fn same(&self, o: &Self) -> bool { same_seq(self, o) }
}
impl<T: VT> VT for Box<[T]> {
    fn any() -> Self { any_vec::<T>().into_boxed_slice() }
    fn enc(&self, out: &mut RefBuf) { enc_seq(self, out) }
    fn same(&self, o: &Self) -> bool { same_seq(self, o) }
}
impl<T: VT> VT for std::sync::Arc<[T]> {
    fn any() -> Self { any_vec::<T>().into() }
    fn enc(&self, out: &mut RefBuf) { enc_seq(self, out) }
    fn same(&self, o: &Self) -> bool { same_seq(self, o) }
}
impl<T: VT> VT for VecDeque<T> {
    fn any() -> Self {
        let mut d = VecDeque::with_capacity(4);
        let l = shape_len();
        if l >= 1 { d.push_back(T::any()); }
        if l >= 2 { d.push_front(T::any()); }
        if l >= 3 { d.push_back(T::any()); }
        d
    }
    fn enc(&self, out: &mut RefBuf) {
        out.put(&(self.len() as u64).to_le_bytes());
        let mut i = 0;
        while i < self.len() {
            self[i].enc(out);
            i += 1;
        }
    }
    fn same(&self, o: &Self) -> bool {
        if self.len() != o.len() { return false; }
        let mut i = 0;
        while i < self.len() {
            if !self[i].same(&o[i]) { return false; }
            i += 1;
        }
        true
    }
}
impl<T: VT, const C: usize> VT for arrayvec::ArrayVec<T, C> {
    fn any() -> Self {
        let mut d = arrayvec::ArrayVec::new();
        let l = shape_len();
        if l >= 1 && C >= 1 { d.push(T::any()); }
        if l >= 2 && C >= 2 { d.push(T::any()); }
        if l >= 3 && C >= 3 { d.push(T::any()); }
        d
    }
    fn enc(&self, out: &mut RefBuf) { enc_seq(self, out) }
    fn same(&self, o: &Self) -> bool { same_seq(self, o) }
}
