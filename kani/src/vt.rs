//! Independent reference model of the documented savefile wire format (DESIGN §1).
//! Nothing in this file calls into savefile: little-endian fixed width primitives, usize/isize as
//! 64 bit, char as u32 scalar value, bool as one byte 0/1, u64 length prefix for strings and
//! sequences, one byte tag for Option (1 = Some) and Result (1 = Ok), fields/elements in
//! declaration order.
use std::collections::{BTreeMap, VecDeque};

pub const REFCAP: usize = 96;
pub struct RefBuf {
    pub b: [u8; REFCAP],
    pub n: usize,
}
impl RefBuf {
    pub fn new() -> RefBuf {
        RefBuf { b: [0u8; REFCAP], n: 0 }
    }
    #[inline(always)]
    pub fn put(&mut self, bytes: &[u8]) {
        let l = bytes.len();
        self.b[self.n..self.n + l].copy_from_slice(bytes);
        self.n += l;
    }
}

#[cfg(kani)]
pub fn anyv<T: kani::Arbitrary>() -> T {
    kani::any()
}
#[cfg(not(kani))]
pub fn anyv<T: Default>() -> T {
    T::default()
}
#[cfg(kani)]
pub fn any_bytes<const N: usize>() -> [u8; N] {
    kani::any()
}
#[cfg(not(kani))]
pub fn any_bytes<const N: usize>() -> [u8; N] {
    [0u8; N]
}
#[cfg(kani)]
pub fn assume(c: bool) {
    kani::assume(c)
}
#[cfg(not(kani))]
pub fn assume(_c: bool) {}

/// A value type of the catalogue: symbolic constructor, reference encoder, structural equality.
pub trait VT: Sized {
    /// encoded size if it does not depend on the value
    const FIXED: Option<usize> = None;
    fn any() -> Self;
    fn enc(&self, out: &mut RefBuf);
    fn same(&self, o: &Self) -> bool;
    /// C06: no invalid bit pattern (bool > 1, non-scalar char, undeclared enum tag) anywhere in the
    /// value. Observed through raw pointers so that UB becomes an ordinary assertion.
    /// Sequences check one element at a symbolic index (= all elements, decided by the solver).
    fn valid(&self) -> bool { true }
    /// C06: number of bytes the reference encoding of this value occupies (no buffer needed).
    fn wire_len(&self) -> u128 { Self::FIXED.expect("wire_len not implemented") as u128 }
}
pub fn sym_index(len: usize) -> usize {
    let i: usize = anyv::<usize>();
    assume(i < len);
    i
}

macro_rules! vt_int {
    ($($t:ty),*) => {$(
        impl VT for $t {
            const FIXED: Option<usize> = Some(std::mem::size_of::<$t>());
            fn any() -> Self { anyv::<$t>() }
            fn enc(&self, out: &mut RefBuf) { out.put(&self.to_le_bytes()) }
            fn same(&self, o: &Self) -> bool { *self == *o }
        }
    )*};
}
vt_int!(u8, i8, u16, i16, u32, i32, u64, i64, u128, i128);

impl VT for usize {
    const FIXED: Option<usize> = Some(8);
    fn any() -> Self { anyv::<usize>() }
    fn enc(&self, out: &mut RefBuf) { out.put(&(*self as u64).to_le_bytes()) }
    fn same(&self, o: &Self) -> bool { *self == *o }
}
impl VT for isize {
    const FIXED: Option<usize> = Some(8);
    fn any() -> Self { anyv::<isize>() }
    fn enc(&self, out: &mut RefBuf) { out.put(&(*self as i64).to_le_bytes()) }
    fn same(&self, o: &Self) -> bool { *self == *o }
}
impl VT for bool {
    const FIXED: Option<usize> = Some(1);
    fn valid(&self) -> bool { unsafe { *(self as *const bool as *const u8) <= 1 } }
    fn any() -> Self { anyv::<bool>() }
    fn enc(&self, out: &mut RefBuf) { out.put(&[if *self { 1u8 } else { 0u8 }]) }
    fn same(&self, o: &Self) -> bool { *self == *o }
}
impl VT for char {
    const FIXED: Option<usize> = Some(4);
    fn valid(&self) -> bool {
        let raw = unsafe { *(self as *const char as *const u32) };
        raw < 0xD800 || (raw > 0xDFFF && raw <= 0x10FFFF)
    }
    fn any() -> Self { anyv::<char>() }
    fn enc(&self, out: &mut RefBuf) { out.put(&(*self as u32).to_le_bytes()) }
    fn same(&self, o: &Self) -> bool { *self == *o }
}
impl VT for f32 {
    const FIXED: Option<usize> = Some(4);
    fn any() -> Self { f32::from_bits(anyv::<u32>()) }
    fn enc(&self, out: &mut RefBuf) { out.put(&self.to_bits().to_le_bytes()) }
    fn same(&self, o: &Self) -> bool { self.to_bits() == o.to_bits() }
}
impl VT for f64 {
    const FIXED: Option<usize> = Some(8);
    fn any() -> Self { f64::from_bits(anyv::<u64>()) }
    fn enc(&self, out: &mut RefBuf) { out.put(&self.to_bits().to_le_bytes()) }
    fn same(&self, o: &Self) -> bool { self.to_bits() == o.to_bits() }
}
impl VT for () {
    const FIXED: Option<usize> = Some(0);
    fn any() -> Self {}
    fn enc(&self, _out: &mut RefBuf) {}
    fn same(&self, _o: &Self) -> bool { true }
}
impl<T> VT for std::marker::PhantomData<T> {
    const FIXED: Option<usize> = Some(0);
    fn any() -> Self { std::marker::PhantomData }
    fn enc(&self, _out: &mut RefBuf) {}
    fn same(&self, _o: &Self) -> bool { true }
}

/// Shape parameter (R5/R12): the length of every string and sequence built by `VT::any()` in the
/// current harness. Concrete per harness — a symbolic-length memcpy makes CBMC both slow and
/// imprecise (spurious, non-replayable counterexamples were observed), so lengths are enumerated
/// by the catalogue (modules l0, l1, l2, l3) and only contents are symbolic.
pub static mut LEN: usize = 0;
pub fn set_len(l: usize) {
    unsafe { LEN = l }
}
pub fn shape_len() -> usize {
    unsafe { LEN }
}
fn any_ascii() -> u8 {
    let a: u8 = anyv::<u8>();
    assume(a < 128);
    a
}
/// ASCII string with symbolic content, length = shape_len() (<= 3).
pub fn any_ascii_string() -> String {
    match shape_len() {
        0 => String::new(),
        1 => unsafe { String::from_utf8_unchecked(vec![any_ascii()]) },
        2 => unsafe { String::from_utf8_unchecked(vec![any_ascii(), any_ascii()]) },
        _ => unsafe { String::from_utf8_unchecked(vec![any_ascii(), any_ascii(), any_ascii()]) },
    }
}
impl VT for String {
    fn wire_len(&self) -> u128 { 8 + self.len() as u128 }
    fn any() -> Self { any_ascii_string() }
    fn enc(&self, out: &mut RefBuf) {
        let by = self.as_bytes();
        out.put(&(by.len() as u64).to_le_bytes());
        let mut i = 0;
        while i < by.len() {
            out.put(&[by[i]]);
            i += 1;
        }
    }
    fn same(&self, o: &Self) -> bool {
        let (a, b) = (self.as_bytes(), o.as_bytes());
        if a.len() != b.len() { return false; }
        let mut i = 0;
        while i < a.len() {
            if a[i] != b[i] { return false; }
            i += 1;
        }
        true
    }
}
impl<T: VT> VT for Option<T> {
    fn valid(&self) -> bool { match self { Some(x) => x.valid(), None => true } }
    fn wire_len(&self) -> u128 { match self { Some(x) => 1 + x.wire_len(), None => 1 } }
    fn any() -> Self { if anyv::<bool>() { Some(T::any()) } else { None } }
    fn enc(&self, out: &mut RefBuf) {
        match self {
            Some(x) => { out.put(&[1u8]); x.enc(out) }
            None => out.put(&[0u8]),
        }
    }
    fn same(&self, o: &Self) -> bool {
        match (self, o) { (Some(a), Some(b)) => a.same(b), (None, None) => true, _ => false }
    }
}
impl<T: VT, E: VT> VT for Result<T, E> {
    fn valid(&self) -> bool { match self { Ok(x) => x.valid(), Err(x) => x.valid() } }
    fn wire_len(&self) -> u128 { match self { Ok(x) => 1 + x.wire_len(), Err(x) => 1 + x.wire_len() } }
    fn any() -> Self { if anyv::<bool>() { Ok(T::any()) } else { Err(E::any()) } }
    fn enc(&self, out: &mut RefBuf) {
        match self {
            Ok(x) => { out.put(&[1u8]); x.enc(out) }
            Err(x) => { out.put(&[0u8]); x.enc(out) }
        }
    }
    fn same(&self, o: &Self) -> bool {
        match (self, o) { (Ok(a), Ok(b)) => a.same(b), (Err(a), Err(b)) => a.same(b), _ => false }
    }
}
impl<T: VT> VT for Box<T> {
    const FIXED: Option<usize> = T::FIXED;
    fn valid(&self) -> bool { (**self).valid() }
    fn wire_len(&self) -> u128 { (**self).wire_len() }
    fn any() -> Self { Box::new(T::any()) }
    fn enc(&self, out: &mut RefBuf) { (**self).enc(out) }
    fn same(&self, o: &Self) -> bool { (**self).same(&**o) }
}
impl<T: VT> VT for std::rc::Rc<T> {
    const FIXED: Option<usize> = T::FIXED;
    fn valid(&self) -> bool { (**self).valid() }
    fn wire_len(&self) -> u128 { (**self).wire_len() }
    fn any() -> Self { std::rc::Rc::new(T::any()) }
    fn enc(&self, out: &mut RefBuf) { (**self).enc(out) }
    fn same(&self, o: &Self) -> bool { (**self).same(&**o) }
}
impl<T: VT> VT for std::sync::Arc<T> {
    const FIXED: Option<usize> = T::FIXED;
    fn valid(&self) -> bool { (**self).valid() }
    fn wire_len(&self) -> u128 { (**self).wire_len() }
    fn any() -> Self { std::sync::Arc::new(T::any()) }
    fn enc(&self, out: &mut RefBuf) { (**self).enc(out) }
    fn same(&self, o: &Self) -> bool { (**self).same(&**o) }
}
impl<T: VT + Copy> VT for std::cell::Cell<T> {
    const FIXED: Option<usize> = T::FIXED;
    fn valid(&self) -> bool { unsafe { (*self.as_ptr()).valid() } }
    fn wire_len(&self) -> u128 { self.get().wire_len() }
    fn any() -> Self { std::cell::Cell::new(T::any()) }
    fn enc(&self, out: &mut RefBuf) { self.get().enc(out) }
    fn same(&self, o: &Self) -> bool { self.get().same(&o.get()) }
}
impl<T: VT> VT for std::cell::RefCell<T> {
    const FIXED: Option<usize> = T::FIXED;
    fn valid(&self) -> bool { self.borrow().valid() }
    fn wire_len(&self) -> u128 { self.borrow().wire_len() }
    fn any() -> Self { std::cell::RefCell::new(T::any()) }
    fn enc(&self, out: &mut RefBuf) { self.borrow().enc(out) }
    fn same(&self, o: &Self) -> bool { self.borrow().same(&*o.borrow()) }
}
impl<A: VT> VT for (A,) {
    const FIXED: Option<usize> = A::FIXED;
    fn valid(&self) -> bool { self.0.valid() }
    fn wire_len(&self) -> u128 { self.0.wire_len() }
    fn any() -> Self { (A::any(),) }
    fn enc(&self, out: &mut RefBuf) { self.0.enc(out) }
    fn same(&self, o: &Self) -> bool { self.0.same(&o.0) }
}
impl<A: VT, B: VT> VT for (A, B) {
    const FIXED: Option<usize> = match (A::FIXED, B::FIXED) { (Some(a), Some(b)) => Some(a + b), _ => None };
    fn valid(&self) -> bool { self.0.valid() && self.1.valid() }
    fn wire_len(&self) -> u128 { self.0.wire_len() + self.1.wire_len() }
    fn any() -> Self { (A::any(), B::any()) }
    fn enc(&self, out: &mut RefBuf) { self.0.enc(out); self.1.enc(out) }
    fn same(&self, o: &Self) -> bool { self.0.same(&o.0) && self.1.same(&o.1) }
}
impl<A: VT, B: VT, C: VT> VT for (A, B, C) {
    const FIXED: Option<usize> = match (A::FIXED, B::FIXED, C::FIXED) { (Some(a), Some(b), Some(c)) => Some(a + b + c), _ => None };
    fn valid(&self) -> bool { self.0.valid() && self.1.valid() && self.2.valid() }
    fn wire_len(&self) -> u128 { self.0.wire_len() + self.1.wire_len() + self.2.wire_len() }
    fn any() -> Self { (A::any(), B::any(), C::any()) }
    fn enc(&self, out: &mut RefBuf) { self.0.enc(out); self.1.enc(out); self.2.enc(out) }
    fn same(&self, o: &Self) -> bool { self.0.same(&o.0) && self.1.same(&o.1) && self.2.same(&o.2) }
}
impl<A: VT, B: VT, C: VT, D: VT> VT for (A, B, C, D) {
    fn valid(&self) -> bool { self.0.valid() && self.1.valid() && self.2.valid() && self.3.valid() }
    fn wire_len(&self) -> u128 { self.0.wire_len() + self.1.wire_len() + self.2.wire_len() + self.3.wire_len() }
    fn any() -> Self { (A::any(), B::any(), C::any(), D::any()) }
    fn enc(&self, out: &mut RefBuf) { self.0.enc(out); self.1.enc(out); self.2.enc(out); self.3.enc(out) }
    fn same(&self, o: &Self) -> bool { self.0.same(&o.0) && self.1.same(&o.1) && self.2.same(&o.2) && self.3.same(&o.3) }
}
impl<T: VT> VT for std::ops::Range<T> {
    fn valid(&self) -> bool { self.start.valid() && self.end.valid() }
    fn wire_len(&self) -> u128 { self.start.wire_len() + self.end.wire_len() }
    fn any() -> Self { T::any()..T::any() }
    fn enc(&self, out: &mut RefBuf) { self.start.enc(out); self.end.enc(out) }
    fn same(&self, o: &Self) -> bool { self.start.same(&o.start) && self.end.same(&o.end) }
}
impl<T: VT> VT for [T; 0] {
    const FIXED: Option<usize> = match T::FIXED { Some(a) => Some(a * 0), None => None };
    fn valid(&self) -> bool { true }
    fn wire_len(&self) -> u128 { 0 }
    fn any() -> Self { [] }
    fn enc(&self, _out: &mut RefBuf) {}
    fn same(&self, _o: &Self) -> bool { true }
}
impl<T: VT> VT for [T; 1] {
    const FIXED: Option<usize> = match T::FIXED { Some(a) => Some(a * 1), None => None };
    fn valid(&self) -> bool { self[0].valid() }
    fn wire_len(&self) -> u128 { self[0].wire_len() }
    fn any() -> Self { [T::any()] }
    fn enc(&self, out: &mut RefBuf) { self[0].enc(out) }
    fn same(&self, o: &Self) -> bool { self[0].same(&o[0]) }
}
impl<T: VT> VT for [T; 2] {
    const FIXED: Option<usize> = match T::FIXED { Some(a) => Some(a * 2), None => None };
    fn valid(&self) -> bool { self[0].valid() && self[1].valid() }
    fn wire_len(&self) -> u128 { self[0].wire_len() + self[1].wire_len() }
    fn any() -> Self { [T::any(), T::any()] }
    fn enc(&self, out: &mut RefBuf) { self[0].enc(out); self[1].enc(out) }
    fn same(&self, o: &Self) -> bool { self[0].same(&o[0]) && self[1].same(&o[1]) }
}
impl<T: VT> VT for [T; 3] {
    const FIXED: Option<usize> = match T::FIXED { Some(a) => Some(a * 3), None => None };
    fn valid(&self) -> bool { self[0].valid() && self[1].valid() && self[2].valid() }
    fn wire_len(&self) -> u128 { self[0].wire_len() + self[1].wire_len() + self[2].wire_len() }
    fn any() -> Self { [T::any(), T::any(), T::any()] }
    fn enc(&self, out: &mut RefBuf) { self[0].enc(out); self[1].enc(out); self[2].enc(out) }
    fn same(&self, o: &Self) -> bool { self[0].same(&o[0]) && self[1].same(&o[1]) && self[2].same(&o[2]) }
}

/// Sequence helpers: length = shape_len() (<= 3), elements symbolic.
pub fn any_vec<T: VT>() -> Vec<T> {
    match shape_len() {
        0 => Vec::new(),
        1 => vec![T::any()],
        2 => vec![T::any(), T::any()],
        _ => vec![T::any(), T::any(), T::any()],
    }
}
pub fn enc_seq<T: VT>(items: &[T], out: &mut RefBuf) {
    out.put(&(items.len() as u64).to_le_bytes());
    let mut i = 0;
    while i < items.len() {
        items[i].enc(out);
        i += 1;
    }
}
pub fn valid_seq<T: VT>(a: &[T]) -> bool {
    // a slice / Vec data pointer must be aligned for T even when T is zero-sized or the length is 0
    if (a.as_ptr() as usize) % std::mem::align_of::<T>() != 0 { return false; }
    if a.len() == 0 { return true; }
    a[sym_index(a.len())].valid()
}
/// 8 + sum of element sizes; for value-dependent element sizes the sum is a loop (callers bound len).
pub fn wire_len_seq<T: VT>(a: &[T]) -> u128 {
    match T::FIXED {
        Some(f) => 8 + (a.len() as u128) * (f as u128),
        None => {
            let mut t: u128 = 8;
            let mut i = 0;
            while i < a.len() {
                t += a[i].wire_len();
                i += 1;
            }
            t
        }
    }
}
pub fn same_seq<T: VT>(a: &[T], b: &[T]) -> bool {
    if a.len() != b.len() { return false; }
    let mut i = 0;
    while i < a.len() {
        if !a[i].same(&b[i]) { return false; }
        i += 1;
    }
    true
}
impl<T: VT> VT for Vec<T> {
    fn valid(&self) -> bool { valid_seq(self) }
    fn wire_len(&self) -> u128 { wire_len_seq(self) }
    fn any() -> Self { any_vec::<T>() }
    fn enc(&self, out: &mut RefBuf) { enc_seq(self, out) }
    fn same(&self, o: &Self) -> bool { same_seq(self, o) }
}
impl<T: VT> VT for Box<[T]> {
    fn valid(&self) -> bool { valid_seq(self) }
    fn wire_len(&self) -> u128 { wire_len_seq(self) }
    fn any() -> Self { any_vec::<T>().into_boxed_slice() }
    fn enc(&self, out: &mut RefBuf) { enc_seq(self, out) }
    fn same(&self, o: &Self) -> bool { same_seq(self, o) }
}
impl<T: VT> VT for std::sync::Arc<[T]> {
    fn valid(&self) -> bool { valid_seq(self) }
    fn wire_len(&self) -> u128 { wire_len_seq(self) }
    fn any() -> Self { any_vec::<T>().into() }
    fn enc(&self, out: &mut RefBuf) { enc_seq(self, out) }
    fn same(&self, o: &Self) -> bool { same_seq(self, o) }
}
impl<T: VT> VT for VecDeque<T> {
    fn valid(&self) -> bool { if self.len() == 0 { true } else { self[sym_index(self.len())].valid() } }
    fn wire_len(&self) -> u128 {
        match T::FIXED {
            Some(f) => 8 + (self.len() as u128) * (f as u128),
            None => { let mut t: u128 = 8; let mut i = 0; while i < self.len() { t += self[i].wire_len(); i += 1; } t }
        }
    }
    fn any() -> Self {
        let mut d = VecDeque::with_capacity(4);
        let l = shape_len();
        if l >= 1 { d.push_back(T::any()); }
        if l >= 2 { d.push_front(T::any()); }
        if l >= 3 { d.push_back(T::any()); }
        d
    }
    fn enc(&self, out: &mut RefBuf) {
        out.put(&(self.len() as u64).to_le_bytes());
        let mut i = 0;
        while i < self.len() {
            self[i].enc(out);
            i += 1;
        }
    }
    fn same(&self, o: &Self) -> bool {
        if self.len() != o.len() { return false; }
        let mut i = 0;
        while i < self.len() {
            if !self[i].same(&o[i]) { return false; }
            i += 1;
        }
        true
    }
}
impl<T: VT, const C: usize> VT for arrayvec::ArrayVec<T, C> {
    fn valid(&self) -> bool { valid_seq(self) }
    fn wire_len(&self) -> u128 { wire_len_seq(self) }
    fn any() -> Self {
        let mut d = arrayvec::ArrayVec::new();
        let l = shape_len();
        if l >= 1 && C >= 1 { d.push(T::any()); }
        if l >= 2 && C >= 2 { d.push(T::any()); }
        if l >= 3 && C >= 3 { d.push(T::any()); }
        d
    }
    fn enc(&self, out: &mut RefBuf) { enc_seq(self, out) }
    fn same(&self, o: &Self) -> bool { same_seq(self, o) }
}

// ---- opaque std types used by C06/C01 (no reference encoder needed for C06: FIXED + valid only)
impl VT for std::net::IpAddr {
    fn any() -> Self {
        if anyv::<bool>() { std::net::IpAddr::V4(std::net::Ipv4Addr::from_bits(anyv::<u32>())) } else { std::net::IpAddr::V6(std::net::Ipv6Addr::from_bits(anyv::<u128>())) }
    }
    fn enc(&self, out: &mut RefBuf) {
        match self {
            std::net::IpAddr::V4(a) => { out.put(&[0u8]); out.put(&a.to_bits().to_le_bytes()) }
            std::net::IpAddr::V6(a) => { out.put(&[1u8]); out.put(&a.to_bits().to_le_bytes()) }
        }
    }
    fn same(&self, o: &Self) -> bool { *self == *o }
    fn wire_len(&self) -> u128 { match self { std::net::IpAddr::V4(_) => 5, std::net::IpAddr::V6(_) => 17 } }
}
impl VT for std::time::Duration {
    const FIXED: Option<usize> = Some(16);
    fn any() -> Self {
        let n: u32 = anyv::<u32>();
        assume(n < 1_000_000_000);
        std::time::Duration::new(anyv::<u64>(), n)
    }
    fn enc(&self, out: &mut RefBuf) { out.put(&self.as_nanos().to_le_bytes()) }
    fn same(&self, o: &Self) -> bool { *self == *o }
}
impl VT for std::time::SystemTime {
    const FIXED: Option<usize> = Some(16);
    fn any() -> Self { std::time::SystemTime::UNIX_EPOCH }
    fn enc(&self, _out: &mut RefBuf) { unimplemented!() }
    fn same(&self, o: &Self) -> bool { *self == *o }
}

impl<const C: usize> VT for arrayvec::ArrayString<C> {
    fn any() -> Self {
        let mut d = arrayvec::ArrayString::<C>::new();
        let l = shape_len();
        if l >= 1 && C >= 1 { d.push(any_ascii() as char); }
        if l >= 2 && C >= 2 { d.push(any_ascii() as char); }
        if l >= 3 && C >= 3 { d.push(any_ascii() as char); }
        d
    }
    fn enc(&self, out: &mut RefBuf) {
        let by = self.as_bytes();
        out.put(&(by.len() as u64).to_le_bytes());
        let mut i = 0;
        while i < by.len() {
            out.put(&[by[i]]);
            i += 1;
        }
    }
    fn same(&self, o: &Self) -> bool {
        let (a, b) = (self.as_bytes(), o.as_bytes());
        if a.len() != b.len() { return false; }
        let mut i = 0;
        while i < a.len() {
            if a[i] != b[i] { return false; }
            i += 1;
        }
        true
    }
    fn wire_len(&self) -> u128 { 8 + self.len() as u128 }
}

impl VT for std::net::SocketAddr {
    // the variant of the written value is part of the shape (R5): shape_len() == 0 -> V4, >= 1 -> V6
    fn any() -> Self {
        if shape_len() >= 1 {
            std::net::SocketAddr::V6(std::net::SocketAddrV6::new(std::net::Ipv6Addr::from_bits(anyv::<u128>()), anyv::<u16>(), anyv::<u32>(), anyv::<u32>()))
        } else {
            std::net::SocketAddr::V4(std::net::SocketAddrV4::new(std::net::Ipv4Addr::from_bits(anyv::<u32>()), anyv::<u16>()))
        }
    }
    fn enc(&self, out: &mut RefBuf) {
        match self {
            std::net::SocketAddr::V4(a) => { out.put(&[0u8]); out.put(&a.port().to_le_bytes()); out.put(&a.ip().to_bits().to_le_bytes()) }
            std::net::SocketAddr::V6(a) => { out.put(&[1u8]); out.put(&a.port().to_le_bytes()); out.put(&a.ip().to_bits().to_le_bytes()); out.put(&a.flowinfo().to_le_bytes()); out.put(&a.scope_id().to_le_bytes()) }
        }
    }
    fn same(&self, o: &Self) -> bool { *self == *o }
    fn wire_len(&self) -> u128 { match self { std::net::SocketAddr::V4(_) => 7, std::net::SocketAddr::V6(_) => 27 } }
}
impl<K: VT + Ord, V: VT> VT for BTreeMap<K, V> {
    fn any() -> Self { let mut m = BTreeMap::new(); if shape_len() >= 1 { m.insert(K::any(), V::any()); } m }
    fn enc(&self, out: &mut RefBuf) {
        out.put(&(self.len() as u64).to_le_bytes());
        for (k, v) in self.iter() { k.enc(out); v.enc(out); }
    }
    fn same(&self, o: &Self) -> bool {
        if self.len() != o.len() { return false; }
        let mut it = o.iter();
        for (k, v) in self.iter() {
            match it.next() { Some((k2, v2)) => { if !k.same(k2) || !v.same(v2) { return false; } } None => return false }
        }
        true
    }
    fn wire_len(&self) -> u128 {
        match (K::FIXED, V::FIXED) { (Some(a), Some(b)) => 8 + (self.len() as u128) * ((a + b) as u128), _ => 8 }
    }
}

macro_rules! vt_atomic {
    ($($at:ty, $t:ty, $w:expr);*) => {$(
        impl VT for $at {
            const FIXED: Option<usize> = Some($w);
            fn any() -> Self { <$at>::new(anyv::<$t>()) }
            fn enc(&self, out: &mut RefBuf) { self.load(std::sync::atomic::Ordering::SeqCst).enc(out) }
            fn same(&self, o: &Self) -> bool { self.load(std::sync::atomic::Ordering::SeqCst) == o.load(std::sync::atomic::Ordering::SeqCst) }
        }
    )*};
}
vt_atomic!(std::sync::atomic::AtomicU8, u8, 1; std::sync::atomic::AtomicI8, i8, 1; std::sync::atomic::AtomicU16, u16, 2; std::sync::atomic::AtomicI16, i16, 2;
           std::sync::atomic::AtomicU32, u32, 4; std::sync::atomic::AtomicI32, i32, 4; std::sync::atomic::AtomicU64, u64, 8; std::sync::atomic::AtomicI64, i64, 8;
           std::sync::atomic::AtomicUsize, usize, 8; std::sync::atomic::AtomicIsize, isize, 8; std::sync::atomic::AtomicBool, bool, 1);
impl<K: VT + Ord> VT for std::collections::BTreeSet<K> {
    fn any() -> Self { let mut m = std::collections::BTreeSet::new(); if shape_len() >= 1 { m.insert(K::any()); } m }
    fn enc(&self, out: &mut RefBuf) {
        out.put(&(self.len() as u64).to_le_bytes());
        for k in self.iter() { k.enc(out); }
    }
    fn same(&self, o: &Self) -> bool {
        if self.len() != o.len() { return false; }
        let mut it = o.iter();
        for k in self.iter() { match it.next() { Some(k2) => { if !k.same(k2) { return false; } } None => return false } }
        true
    }
}
