//! C12 schemas are faithful: a generic reader driven only by get_schema::<T>(v) parses the bytes
//! bare_serialize produced for a symbolic value completely and without error; no Recursion marker.
//! Schema nodes with documented meaning: Primitive widths, String/Vector = u64 length + items,
//! Option = 1 byte tag, Struct = fields in order, Array = count items, Boxed/Reference = inner,
//! ZeroSize = nothing, UtcTimestamp = 8 bytes. Enum schemas are outside (DESIGN R14).
use crate::common::*;
use crate::props::*;
use crate::vt::*;
use savefile::prelude::*;
use savefile::SchemaArray;

#[derive(Debug, PartialEq, Eq, Clone, Copy)]
pub enum WalkErr { Eof, BadTag, Unsupported, Recursion, TooLong }

fn need(b: &[u8], pos: usize, n: usize) -> Result<usize, WalkErr> {
    if pos + n > b.len() { Err(WalkErr::Eof) } else { Ok(pos + n) }
}
fn rd_u64(b: &[u8], pos: usize) -> Result<(u64, usize), WalkErr> {
    let e = need(b, pos, 8)?;
    Ok((u64::from_le_bytes([b[pos], b[pos + 1], b[pos + 2], b[pos + 3], b[pos + 4], b[pos + 5], b[pos + 6], b[pos + 7]]), e))
}
/// returns the position after the value described by `s`
pub fn walk(s: &Schema, b: &[u8], pos: usize) -> Result<usize, WalkErr> {
    match s {
        Schema::Primitive(p) => match p {
            SchemaPrimitive::schema_i8 | SchemaPrimitive::schema_u8 | SchemaPrimitive::schema_bool => need(b, pos, 1),
            SchemaPrimitive::schema_i16 | SchemaPrimitive::schema_u16 => need(b, pos, 2),
            SchemaPrimitive::schema_i32 | SchemaPrimitive::schema_u32 | SchemaPrimitive::schema_f32 | SchemaPrimitive::schema_char | SchemaPrimitive::schema_canary1 => need(b, pos, 4),
            SchemaPrimitive::schema_i64 | SchemaPrimitive::schema_u64 | SchemaPrimitive::schema_f64 => need(b, pos, 8),
            SchemaPrimitive::schema_i128 | SchemaPrimitive::schema_u128 => need(b, pos, 16),
            SchemaPrimitive::schema_string(_) => {
                let (l, p2) = rd_u64(b, pos)?;
                if l > 16 { return Err(WalkErr::TooLong); }
                need(b, p2, l as usize)
            }
        },
        Schema::Vector(inner, _) => {
            let (l, mut p) = rd_u64(b, pos)?;
            if l > 4 { return Err(WalkErr::TooLong); }
            let mut i = 0;
            while i < l {
                p = walk(inner, b, p)?;
                i += 1;
            }
            Ok(p)
        }
        Schema::Array(SchemaArray { item_type, count }) => {
            if *count > 4 { return Err(WalkErr::TooLong); }
            let mut p = pos;
            let mut i = 0;
            while i < *count {
                p = walk(item_type, b, p)?;
                i += 1;
            }
            Ok(p)
        }
        Schema::SchemaOption(inner) => {
            let e = need(b, pos, 1)?;
            match b[pos] {
                0 => Ok(e),
                1 => walk(inner, b, e),
                _ => Err(WalkErr::BadTag),
            }
        }
        Schema::Struct(st) => {
            let mut p = pos;
            let mut i = 0;
            while i < st.fields.len() {
                p = walk(&st.fields[i].value, b, p)?;
                i += 1;
            }
            Ok(p)
        }
        Schema::Boxed(inner) | Schema::Reference(inner) => walk(inner, b, pos),
        Schema::ZeroSize => Ok(pos),
        Schema::UtcTimestamp => need(b, pos, 8),
        Schema::Recursion(_) => Err(WalkErr::Recursion),
        _ => Err(WalkErr::Unsupported),
    }
}
pub fn faithful_check<T: VT + Serialize + WithSchema>(len: usize) {
    set_len(len);
    let x: T = T::any();
    let s = get_schema::<T>(0);
    let (buf, n) = ser::<T, REFCAP>(&x, 0).unwrap();
    let r = walk(&s, &buf[..n], 0);
    assert!(r != Err(WalkErr::Recursion), "C12: schema of a non-recursive type contains a recursion marker");
    assert!(r != Err(WalkErr::Unsupported), "C12: schema uses a node kind the documented reader does not know");
    assert!(r == Ok(n), "C12: a reader driven by the schema does not parse the serialized bytes completely and without error");
    std::mem::forget(x);
    std::mem::forget(s);
}
macro_rules! faith_harness {
    ($name:ident, $t:ty, $unwind:expr, $len:expr) => {
        kproof!($name, 8, {
            faithful_check::<$t>($len);
            kani::cover!(true, "reached end");
        });
    };
}
pub mod q {
    use super::*;
    use crate::dtypes::*;
    faith_harness!(f_u8, u8, 8, 0);
    faith_harness!(f_i64, i64, 8, 0);
    faith_harness!(f_u128, u128, 8, 0);
    faith_harness!(f_usize, usize, 8, 0);
    faith_harness!(f_bool, bool, 8, 0);
    faith_harness!(f_char, char, 8, 0);
    faith_harness!(f_f64, f64, 8, 0);
    faith_harness!(f_string, String, 8, 2);
    faith_harness!(f_opt_u32, Option<u32>, 8, 0);
    faith_harness!(f_tup2, (u8, u32), 8, 0);
    faith_harness!(f_tup3, (u8, u16, u8), 8, 0);
    faith_harness!(f_unit, (), 8, 0);
    faith_harness!(f_s_packed, SqPackedC, 8, 0);
    faith_harness!(f_s_padded, SqPaddedC, 8, 0);
    faith_harness!(f_s_rust, SqRust, 8, 0);
    faith_harness!(f_s_unit, SqUnit, 8, 0);
    faith_harness!(f_s_tuple, SqTuple, 8, 0);
    faith_harness!(f_s_generic, SqGeneric<u32>, 8, 0);
}
pub mod t {
    use super::*;
    use crate::dtypes::*;
    faith_harness!(f_arraystring, arrayvec::ArrayString<3>, 8, 2);
    faith_harness!(f_range, std::ops::Range<u32>, 8, 0);
    faith_harness!(f_cell, std::cell::Cell<u16>, 8, 0);
    faith_harness!(f_phantom, std::marker::PhantomData<u64>, 8, 0);
    faith_harness!(f_duration, std::time::Duration, 8, 0);
    faith_harness!(f_s_usize, SqUsize, 8, 0);
    faith_harness!(f_s_boolchar, SqBoolChar, 8, 0);
    faith_harness!(f_s_sameal, SqSameAlign, 8, 0);
    faith_harness!(f_s_one, SqOne, 8, 0);
    faith_harness!(f_s_overaligned, SqOverAligned1, 8, 0);
}
/// Out of reach here (measured: timeout 600 s / OOM): schema trees of depth >= 3 and every type whose
/// schema goes through WithSchemaContext::possible_recursion (HashMap<TypeId,_> insert/remove under
/// SipHash): arrays, Vec, Box, Rc/Arc, nested structs, structs holding String/Option/Vec.
/// Kept for documentation and for manual runs; not part of any tier.
pub mod x {
    use super::*;
    use crate::dtypes::*;
    faith_harness!(f_arr0, [u32; 0], 8, 0);
    faith_harness!(f_arr3, [u16; 3], 8, 0);
    faith_harness!(f_box_u16, Box<u16>, 8, 0);
    faith_harness!(f_s_mixed, SqMixed, 8, 1);
    faith_harness!(f_s_nested, SqNested, 8, 0);
    faith_harness!(f_s_opt, SqOpt, 8, 0);
    faith_harness!(f_s_vec, SqVec, 8, 2);
    faith_harness!(f_vec_u32, Vec<u32>, 8, 2);
    faith_harness!(f_vec_usize, Vec<usize>, 8, 2);
    faith_harness!(f_vec_vec_u8, Vec<Vec<u8>>, 8, 2);
    faith_harness!(f_vec_string, Vec<String>, 8, 2);
    faith_harness!(f_vec_tup, Vec<(u8, u8)>, 8, 2);
    faith_harness!(f_boxslice, Box<[u16]>, 8, 2);
    faith_harness!(f_vecdeque, std::collections::VecDeque<u8>, 8, 2);
    faith_harness!(f_arrayvec, arrayvec::ArrayVec<u16, 3>, 8, 2);
    faith_harness!(f_opt_string, Option<String>, 8, 2);
    faith_harness!(f_opt_opt, Option<Option<u8>>, 8, 0);
    faith_harness!(f_rc, std::rc::Rc<u32>, 8, 0);
    faith_harness!(f_arc, std::sync::Arc<u32>, 8, 0);
    faith_harness!(f_s_nestedpad, SqNestedPad, 8, 0);
    faith_harness!(f_s_arr, SqArr, 8, 0);
}
