//! C15 ABI compatibility ledger — compare-against-recorded core. `verify_compatiblity` is, per
//! interface version: first run `save_file_noschema(path, LEDGER_VERSION, &def)`, later runs
//! `load_file_noschema(path, LEDGER_VERSION)` + `def.verify_backward_compatible(version, &previous, false)`.
//! File-system calls are syscalls (unsupported by CBMC); the harness keeps the "file" in a byte
//! array and calls the same save_noschema / load_noschema / verify_backward_compatible.
//! LEDGER_VERSION is the data version literal used by savefile_abi::verify_compatiblity (1 in the
//! pinned tree) — read from the source by gen/generate.py so that the model follows the code.
use crate::common::*;
use crate::ledger_version::{LEDGER_LOAD_VERSION, LEDGER_VERSION};
use savefile::prelude::*;
use std::io::Cursor;

fn method(name: &str, ret: Schema, args: Vec<Schema>, receiver: ReceiverType, is_async: bool) -> AbiMethod {
    let mut a = Vec::with_capacity(2);
    for s in args {
        a.push(AbiMethodArgument { schema: s });
    }
    AbiMethod { name: name.to_string(), info: AbiMethodInfo { return_value: ret, receiver, arguments: a, async_trait_heuristic: is_async } }
}
fn def(methods: Vec<AbiMethod>) -> AbiTraitDefinition {
    AbiTraitDefinition { name: "T".to_string(), methods, sync: false, send: false }
}
fn p(k: SchemaPrimitive) -> Schema {
    Schema::Primitive(k)
}
fn any_receiver() -> ReceiverType {
    match kani::any::<u8>() % 3 {
        0 => ReceiverType::Shared,
        1 => ReceiverType::Mut,
        _ => ReceiverType::PinMut,
    }
}
/// first run records `old`; a later run compares `new` against what was recorded
fn ledger(old: &AbiTraitDefinition, new: &AbiTraitDefinition) -> Result<(), SavefileError> {
    let mut file = [0u8; 192];
    let n;
    {
        let mut cur = Cursor::new(&mut file[..]);
        save_noschema(&mut cur, LEDGER_VERSION, old)?;
        n = cur.position() as usize;
    }
    let mut rd: &[u8] = &file[..n];
    let previous: AbiTraitDefinition = load_noschema(&mut rd, LEDGER_LOAD_VERSION)?;
    let r = new.verify_backward_compatible(0, &previous, false);
    std::mem::forget(previous);
    r
}
macro_rules! expect {
    ($r:expr, ok, $msg:expr) => { match $r { Ok(()) => {}, Err(e) => { std::mem::forget(e); panic!($msg); } } };
    ($r:expr, err, $msg:expr) => { match $r { Ok(()) => panic!($msg), Err(e) => std::mem::forget(e) } };
}
pub mod q {
    use super::*;
    kproof!(unchanged, 14, {
        let is_async: bool = kani::any();
        let d = def(vec![method("f", p(SchemaPrimitive::schema_u32), vec![p(SchemaPrimitive::schema_u8)], ReceiverType::Shared, is_async)]);
        let d2 = def(vec![method("f", p(SchemaPrimitive::schema_u32), vec![p(SchemaPrimitive::schema_u8)], ReceiverType::Shared, is_async)]);
        let r = ledger(&d, &d2);
        expect!(r, ok, "C15: the compatibility check fails on a later run for an unchanged interface");
        std::mem::forget(d);
        std::mem::forget(d2);
        kani::cover!(true, "reached end");
    });
    kproof!(unchanged_mut_receiver, 14, {
        let d = def(vec![method("f", Schema::ZeroSize, vec![], ReceiverType::Mut, false)]);
        let d2 = def(vec![method("f", Schema::ZeroSize, vec![], ReceiverType::Mut, false)]);
        let r = ledger(&d, &d2);
        expect!(r, ok, "C15: the compatibility check fails on a later run for an unchanged interface (&mut self)");
        std::mem::forget(d);
        std::mem::forget(d2);
        kani::cover!(true, "reached end");
    });
    kproof!(added_method, 14, {
        let d = def(vec![method("f", p(SchemaPrimitive::schema_u32), vec![p(SchemaPrimitive::schema_u8)], ReceiverType::Shared, false)]);
        let d2 = def(vec![
            method("f", p(SchemaPrimitive::schema_u32), vec![p(SchemaPrimitive::schema_u8)], ReceiverType::Shared, false),
            method("g", Schema::ZeroSize, vec![], ReceiverType::Mut, false),
        ]);
        let r = ledger(&d, &d2);
        expect!(r, ok, "C15: adding a method is reported as incompatible");
        std::mem::forget(d);
        std::mem::forget(d2);
        kani::cover!(true, "reached end");
    });
    kproof!(removed_method, 14, {
        let d = def(vec![
            method("f", p(SchemaPrimitive::schema_u32), vec![p(SchemaPrimitive::schema_u8)], ReceiverType::Shared, false),
            method("g", Schema::ZeroSize, vec![], ReceiverType::Shared, false),
        ]);
        let d2 = def(vec![method("f", p(SchemaPrimitive::schema_u32), vec![p(SchemaPrimitive::schema_u8)], ReceiverType::Shared, false)]);
        let r = ledger(&d, &d2);
        expect!(r, err, "C15: removing a recorded method is not reported");
        std::mem::forget(d);
        std::mem::forget(d2);
        kani::cover!(true, "reached end");
    });
    kproof!(arg_count_changed, 14, {
        let d = def(vec![method("f", p(SchemaPrimitive::schema_u32), vec![p(SchemaPrimitive::schema_u8)], ReceiverType::Shared, false)]);
        let d2 = def(vec![method("f", p(SchemaPrimitive::schema_u32), vec![p(SchemaPrimitive::schema_u8), p(SchemaPrimitive::schema_u8)], ReceiverType::Shared, false)]);
        let r = ledger(&d, &d2);
        expect!(r, err, "C15: a changed argument count is not reported");
        std::mem::forget(d);
        std::mem::forget(d2);
        kani::cover!(true, "reached end");
    });
    kproof!(arg_type_changed, 14, {
        let d = def(vec![method("f", p(SchemaPrimitive::schema_u32), vec![p(SchemaPrimitive::schema_u8)], ReceiverType::Shared, false)]);
        let d2 = def(vec![method("f", p(SchemaPrimitive::schema_u32), vec![p(SchemaPrimitive::schema_i8)], ReceiverType::Shared, false)]);
        let r = ledger(&d, &d2);
        expect!(r, err, "C15: a changed argument type is not reported");
        std::mem::forget(d);
        std::mem::forget(d2);
        kani::cover!(true, "reached end");
    });
    kproof!(unit_ret_becomes_value, 14, {
        let d = def(vec![method("f", Schema::ZeroSize, vec![p(SchemaPrimitive::schema_u8)], ReceiverType::Shared, false)]);
        let d2 = def(vec![method("f", p(SchemaPrimitive::schema_u32), vec![p(SchemaPrimitive::schema_u8)], ReceiverType::Shared, false)]);
        let r = ledger(&d, &d2);
        expect!(r, err, "C15: a unit return type turning into a value is not reported");
        std::mem::forget(d);
        std::mem::forget(d2);
        kani::cover!(true, "reached end");
    });
    kproof!(value_ret_becomes_unit, 14, {
        let d = def(vec![method("f", p(SchemaPrimitive::schema_u32), vec![], ReceiverType::Shared, false)]);
        let d2 = def(vec![method("f", Schema::ZeroSize, vec![], ReceiverType::Shared, false)]);
        let r = ledger(&d, &d2);
        expect!(r, err, "C15: a value return type turning into unit is not reported");
        std::mem::forget(d);
        std::mem::forget(d2);
        kani::cover!(true, "reached end");
    });
    kproof!(ret_type_changed, 14, {
        let d = def(vec![method("f", p(SchemaPrimitive::schema_u32), vec![p(SchemaPrimitive::schema_u8)], ReceiverType::Shared, false)]);
        let d2 = def(vec![method("f", p(SchemaPrimitive::schema_u64), vec![p(SchemaPrimitive::schema_u8)], ReceiverType::Shared, false)]);
        let r = ledger(&d, &d2);
        expect!(r, err, "C15: a changed return type is not reported");
        std::mem::forget(d);
        std::mem::forget(d2);
        kani::cover!(true, "reached end");
    });
}
pub mod t {
    use super::*;
    kproof!(second_arg_type_changed, 14, {
        let d = def(vec![method("f", Schema::ZeroSize, vec![p(SchemaPrimitive::schema_u8), p(SchemaPrimitive::schema_u16)], ReceiverType::Shared, false)]);
        let d2 = def(vec![method("f", Schema::ZeroSize, vec![p(SchemaPrimitive::schema_u8), p(SchemaPrimitive::schema_u32)], ReceiverType::Shared, false)]);
        let r = ledger(&d, &d2);
        expect!(r, err, "C15: a changed type of the second argument is not reported");
        std::mem::forget(d);
        std::mem::forget(d2);
        kani::cover!(true, "reached end");
    });
    kproof!(second_method_ret_changed, 14, {
        let d = def(vec![
            method("f", Schema::ZeroSize, vec![], ReceiverType::Shared, false),
            method("g", p(SchemaPrimitive::schema_u8), vec![], ReceiverType::Shared, false),
        ]);
        let d2 = def(vec![
            method("f", Schema::ZeroSize, vec![], ReceiverType::Shared, false),
            method("g", p(SchemaPrimitive::schema_bool), vec![], ReceiverType::Shared, false),
        ]);
        let r = ledger(&d, &d2);
        expect!(r, err, "C15: a changed return type of the second method is not reported");
        std::mem::forget(d);
        std::mem::forget(d2);
        kani::cover!(true, "reached end");
    });
    kproof!(became_async, 14, {
        let d = def(vec![method("f", p(SchemaPrimitive::schema_u32), vec![], ReceiverType::Shared, false)]);
        let d2 = def(vec![method("f", p(SchemaPrimitive::schema_u32), vec![], ReceiverType::Shared, true)]);
        let r = ledger(&d, &d2);
        expect!(r, err, "C15: a method turning async is not reported");
        std::mem::forget(d);
        std::mem::forget(d2);
        kani::cover!(true, "reached end");
    });
    kproof!(reordered_methods, 14, {
        let d = def(vec![
            method("f", Schema::ZeroSize, vec![], ReceiverType::Shared, false),
            method("g", p(SchemaPrimitive::schema_u8), vec![], ReceiverType::Shared, false),
        ]);
        let d2 = def(vec![
            method("g", p(SchemaPrimitive::schema_u8), vec![], ReceiverType::Shared, false),
            method("f", Schema::ZeroSize, vec![], ReceiverType::Shared, false),
        ]);
        let r = ledger(&d, &d2);
        expect!(r, ok, "C15: reordering methods (matched by name) is reported as incompatible");
        std::mem::forget(d);
        std::mem::forget(d2);
        kani::cover!(true, "reached end");
    });
}
