//! Structural equality of Schema values written with explicit index loops (the derived `==` on
//! `Vec<Field>` makes CBMC explore the mutual recursion to the unwind bound even for empty
//! vectors). Oracle-side code: independent of savefile's PartialEq.
use savefile::prelude::*;
use savefile::verif_schema_access::*;
use savefile::{SchemaArray, VecOrStringLayout};

pub fn str_same(a: &str, b: &str) -> bool {
    let (a, b) = (a.as_bytes(), b.as_bytes());
    if a.len() != b.len() {
        return false;
    }
    let mut i = 0;
    while i < a.len() {
        if a[i] != b[i] {
            return false;
        }
        i += 1;
    }
    true
}
pub fn fields_same(a: &[Field], b: &[Field]) -> bool {
    if a.len() != b.len() {
        return false;
    }
    let mut i = 0;
    while i < a.len() {
        if !str_same(&a[i].name, &b[i].name) || field_offset(&a[i]) != field_offset(&b[i]) || !schema_same(&a[i].value, &b[i].value) {
            return false;
        }
        i += 1;
    }
    true
}
pub fn def_same(a: &AbiTraitDefinition, b: &AbiTraitDefinition) -> bool {
    if !str_same(&a.name, &b.name) || a.sync != b.sync || a.send != b.send || a.methods.len() != b.methods.len() {
        return false;
    }
    let mut i = 0;
    while i < a.methods.len() {
        let (x, y) = (&a.methods[i], &b.methods[i]);
        if !str_same(&x.name, &y.name)
            || x.info.receiver != y.info.receiver
            || x.info.async_trait_heuristic != y.info.async_trait_heuristic
            || !schema_same(&x.info.return_value, &y.info.return_value)
            || x.info.arguments.len() != y.info.arguments.len()
        {
            return false;
        }
        let mut j = 0;
        while j < x.info.arguments.len() {
            if !schema_same(&x.info.arguments[j].schema, &y.info.arguments[j].schema) {
                return false;
            }
            j += 1;
        }
        i += 1;
    }
    true
}
pub fn enum_same(x: &SchemaEnum, y: &SchemaEnum) -> bool {
    if !str_same(&x.dbg_name, &y.dbg_name) || x.discriminant_size != y.discriminant_size || enum_layout(x) != enum_layout(y) || x.variants.len() != y.variants.len() {
        return false;
    }
    let mut i = 0;
    while i < x.variants.len() {
        let (v, w) = (&x.variants[i], &y.variants[i]);
        if !str_same(&v.name, &w.name) || v.discriminant != w.discriminant || !fields_same(&v.fields, &w.fields) {
            return false;
        }
        i += 1;
    }
    true
}
pub fn schema_same(a: &Schema, b: &Schema) -> bool {
    match (a, b) {
        (Schema::Struct(x), Schema::Struct(y)) => str_same(&x.dbg_name, &y.dbg_name) && struct_layout(x) == struct_layout(y) && fields_same(&x.fields, &y.fields),
        (Schema::Enum(x), Schema::Enum(y)) => enum_same(x, y),
        (Schema::Primitive(x), Schema::Primitive(y)) => x == y,
        (Schema::Vector(x, lx), Schema::Vector(y, ly)) => lx == ly && schema_same(x, y),
        (Schema::Array(x), Schema::Array(y)) => x.count == y.count && schema_same(&x.item_type, &y.item_type),
        (Schema::SchemaOption(x), Schema::SchemaOption(y)) => schema_same(x, y),
        (Schema::Undefined, Schema::Undefined) => true,
        (Schema::ZeroSize, Schema::ZeroSize) => true,
        (Schema::Custom(x), Schema::Custom(y)) => str_same(x, y),
        (Schema::Boxed(x), Schema::Boxed(y)) => schema_same(x, y),
        (Schema::Slice(x), Schema::Slice(y)) => schema_same(x, y),
        (Schema::Str, Schema::Str) => true,
        (Schema::Reference(x), Schema::Reference(y)) => schema_same(x, y),
        (Schema::Trait(fx, x), Schema::Trait(fy, y)) => fx == fy && def_same(x, y),
        (Schema::FnClosure(fx, x), Schema::FnClosure(fy, y)) => fx == fy && def_same(x, y),
        (Schema::Recursion(x), Schema::Recursion(y)) => x == y,
        (Schema::StdIoError, Schema::StdIoError) => true,
        (Schema::Future(x, a1, a2, a3), Schema::Future(y, b1, b2, b3)) => a1 == b1 && a2 == b2 && a3 == b3 && def_same(x, y),
        (Schema::UninitSlice, Schema::UninitSlice) => true,
        (Schema::UtcTimestamp, Schema::UtcTimestamp) => true,
        _ => false,
    }
}
