//! C07 truncated files: every cut offset k < len of (a) the bare encoding, (b) a save_noschema
//! file, (c) a save file with schema section is rejected with an error; never a panic.
use crate::common::*;
use crate::props::*;
use crate::vt::*;
use savefile::prelude::*;
use std::io::Cursor;

macro_rules! trunc_harness {
    ($name:ident, $t:ty, $unwind:expr, $len:expr) => {
        kproof!($name, $unwind, {
            truncation_check::<$t>($len);
            kani::cover!(true, "reached end");
        });
    };
}
macro_rules! trunc_noschema {
    ($name:ident, $t:ty, $len:expr) => {
        kproof!($name, 11, {
            set_len($len);
            let x: $t = <$t as VT>::any();
            let mut buf = [0u8; 64];
            let n;
            {
                let mut cur = Cursor::new(&mut buf[..]);
                save_noschema(&mut cur, 3, &x).unwrap();
                n = cur.position() as usize;
            }
            let k: usize = kani::any();
            kani::assume(k < n);
            let mut rd: &[u8] = &buf[..k];
            match load_noschema::<$t>(&mut rd, 3) {
                Ok(y) => {
                    std::mem::forget(y);
                    panic!("C07: a strict prefix of a save_noschema file was accepted");
                }
                Err(e) => std::mem::forget(e),
            }
            std::mem::forget(x);
            kani::cover!(true, "reached end");
        });
    };
}
/// Concrete cut offset, symbolic contents: robust against reader implementations whose loops CBMC
/// cannot bound under a symbolic remaining length.
macro_rules! trunc_at {
    ($name:ident, $t:ty, $len:expr, $k:expr) => {
        kproof!($name, 12, {
            set_len($len);
            let x: $t = <$t as VT>::any();
            let (buf, n) = ser::<$t, REFCAP>(&x, 0).unwrap();
            kani::assume($k < n); // values whose encoding is not longer than the cut are not truncated by it
            match de::<$t>(&buf[..$k], 0) {
                Ok((y, _)) => {
                    std::mem::forget(y);
                    panic!("C07: a strict prefix of the saved bytes was accepted as complete data");
                }
                Err(e) => std::mem::forget(e),
            }
            std::mem::forget(x);
            kani::cover!(true, "reached end");
        });
    };
}
pub mod q {
    use super::*;
    use crate::dtypes::*;
    trunc_at!(k_string_8, String, 2, 8);
    trunc_at!(k_string_9, String, 2, 9);
    trunc_at!(k_string_4, String, 2, 4);
    trunc_at!(k_tup_str_13, (u32, String), 2, 13);
    trunc_at!(k_tup_str_12, (u32, String), 2, 12);
    trunc_at!(k_vec_u32_12, Vec<u32>, 2, 12);
    trunc_at!(k_vec_u32_15, Vec<u32>, 2, 15);
    trunc_at!(k_vec_usize_17, Vec<usize>, 2, 17);
    trunc_at!(k_arraystring_9, arrayvec::ArrayString<3>, 2, 9);
    trunc_at!(k_arrayvec_9, arrayvec::ArrayVec<u16, 3>, 2, 9);
    trunc_at!(k_arr_5, [u16; 3], 0, 5);
    trunc_at!(k_opt_2, Option<u16>, 0, 2);
    trunc_harness!(b_u32, u32, 5, 0);
    trunc_harness!(b_opt_u16, Option<u16>, 5, 0);
    trunc_harness!(b_string, String, 6, 2);
    trunc_harness!(b_vec_u32, Vec<u32>, 6, 2);
    trunc_harness!(b_vec_usize, Vec<usize>, 6, 2);
    trunc_harness!(b_struct_packed, SqPackedC, 5, 0);
    trunc_harness!(b_struct_padded, SqPaddedC, 5, 0);
    trunc_harness!(b_enum_data, EqData, 5, 0);
    trunc_harness!(b_nested, SqNestedPad, 5, 0);
    trunc_harness!(b_arr, [u16; 3], 5, 0);
    trunc_noschema!(n_u32, u32, 0);
    trunc_noschema!(n_struct, SqPaddedC, 0);
    trunc_noschema!(n_vec_u32, Vec<u32>, 2);
    trunc_noschema!(n_string, String, 2);
}
pub mod t {
    use super::*;
    use crate::dtypes::*;
    cat_fixed_q!(trunc_harness);
    cat_dfixed_q!(trunc_harness);
    cat_dvar_q!(trunc_harness);
    pub mod l1 { use super::super::*; use crate::dtypes::*; cat_seq_q!(trunc_harness, 1); cat_dseq_q!(trunc_harness, 1); }
    pub mod l3 { use super::super::*; use crate::dtypes::*; cat_seq_q!(trunc_harness, 3); }
    trunc_noschema!(n_enum, EqData, 0);
    trunc_noschema!(n_opt, Option<u16>, 0);
}
