//! C17 introspection consistency: (a) per value type, child(i).is_some() <=> i < introspect_len();
//! (b) IntrospectionResult::total_index(k).is_some() <=> k < total_len() for frames built through
//! the verification hook (Introspector navigation itself is outside, DESIGN R10).
use crate::common::*;
use crate::props::*;
use crate::vt::*;
use savefile::prelude::*;
use savefile::{IntrospectedElement, IntrospectedElementKey, IntrospectionFrame};

macro_rules! intro_harness {
    ($name:ident, $t:ty, $unwind:expr, $len:expr) => {
        kproof!($name, 8, {
            set_len($len);
            let x: $t = <$t as VT>::any();
            introspect_check::<$t>(&x);
            std::mem::forget(x);
            kani::cover!(true, "reached end");
        });
    };
}
#[derive(Savefile)]
pub struct WithIgnored {
    pub a: u8,
    #[savefile_introspect_ignore]
    pub b: u16,
    pub c: u32,
}
#[derive(Savefile)]
pub struct WithIgnored2 {
    pub a: u8,
    #[savefile_introspect_ignore]
    pub b: u16,
    #[savefile_introspect_ignore]
    pub c: u16,
    pub d: u32,
    pub e: u8,
}
#[derive(Savefile)]
pub struct WithIgnoredFirstLast {
    #[savefile_introspect_ignore]
    pub a: u8,
    pub b: u16,
    #[savefile_introspect_ignore]
    pub c: u16,
    pub d: u32,
    #[savefile_introspect_ignore]
    pub e: u8,
}
#[derive(Savefile)]
pub struct TupleIgnored(pub u8, #[savefile_introspect_ignore] pub u16, #[savefile_introspect_ignore] pub u16, pub u32);
#[derive(Savefile)]
pub struct WithKey {
    #[savefile_introspect_key]
    pub name: u8,
    pub c: u32,
}
pub mod q {
    use super::*;
    use crate::dtypes::*;
    intro_harness!(i_u32, u32, 8, 0);
    intro_harness!(i_opt, Option<(u8, u8)>, 8, 0);
    intro_harness!(i_tup3, (u8, u16, u32), 8, 0);
    intro_harness!(i_arr3, [u16; 3], 8, 0);
    intro_harness!(i_vec2, Vec<u32>, 8, 2);
    intro_harness!(i_box, Box<(u8, u8)>, 8, 0);
    intro_harness!(i_range, std::ops::Range<u8>, 8, 0);
    intro_harness!(i_res, Result<(u8, u8), u8>, 8, 0);
    intro_harness!(i_res_err, Result<u8, (u8, u16, u8)>, 8, 0);
    intro_harness!(i_opt_arr, Option<[u8; 3]>, 8, 0);
    intro_harness!(i_box_struct, Box<SqRust>, 8, 0);
    intro_harness!(i_struct3, SqRust, 8, 0);
    intro_harness!(i_struct_unit, SqUnit, 8, 0);
    intro_harness!(i_struct_tuple, SqTuple, 8, 0);
    intro_harness!(i_enum_data, EqData, 8, 0);
    intro_harness!(i_enum_unit, EqUnit, 8, 0);
    kproof!(i_ignored, 8, {
        let x = WithIgnored { a: kani::any(), b: kani::any(), c: kani::any() };
        introspect_check(&x);
        kani::cover!(true, "reached end");
    });
    kproof!(i_ignored2, 8, {
        let x = WithIgnored2 { a: kani::any(), b: kani::any(), c: kani::any(), d: kani::any(), e: kani::any() };
        introspect_check(&x);
        kani::cover!(true, "reached end");
    });
    kproof!(i_ignored_first_last, 8, {
        let x = WithIgnoredFirstLast { a: kani::any(), b: kani::any(), c: kani::any(), d: kani::any(), e: kani::any() };
        introspect_check(&x);
        kani::cover!(true, "reached end");
    });
    kproof!(i_tuple_ignored, 8, {
        let x = TupleIgnored(kani::any(), kani::any(), kani::any(), kani::any());
        introspect_check(&x);
        kani::cover!(true, "reached end");
    });
    kproof!(i_key, 8, {
        let x = WithKey { name: kani::any(), c: kani::any() };
        introspect_check(&x);
        kani::cover!(true, "reached end");
    });
    kproof!(i_btreemap1, 8, {
        let mut m = std::collections::BTreeMap::new();
        m.insert(kani::any::<u8>(), kani::any::<u16>());
        introspect_check(&m);
        std::mem::forget(m);
        kani::cover!(true, "reached end");
    });
    kproof!(i_btreeset1, 8, {
        let mut m = std::collections::BTreeSet::new();
        m.insert(kani::any::<u8>());
        introspect_check(&m);
        std::mem::forget(m);
        kani::cover!(true, "reached end");
    });
}
pub mod t {
    use super::*;
    use crate::dtypes::*;
    cat_fixed_q!(intro_harness);
    cat_dfixed_q!(intro_harness);
    cat_dvar_q!(intro_harness);
    pub mod l1 { use super::super::*; use crate::dtypes::*; cat_seq_q!(intro_harness, 1); cat_dseq_q!(intro_harness, 1); }
    pub mod l3 { use super::super::*; use crate::dtypes::*; cat_seq_q!(intro_harness, 3); }
}

fn elem(depth: usize) -> IntrospectedElement {
    IntrospectedElement {
        key: IntrospectedElementKey { depth, key: String::new(), key_disambiguator: 0 },
        value: String::new(),
        has_children: kani::any(),
        selected: false,
    }
}
fn frame(depth: usize, n: usize, selected: Option<usize>) -> IntrospectionFrame {
    let mut keyvals = Vec::with_capacity(3);
    if n >= 1 { keyvals.push(elem(depth)); }
    if n >= 2 { keyvals.push(elem(depth)); }
    if n >= 3 { keyvals.push(elem(depth)); }
    IntrospectionFrame { selected, keyvals, limit_reached: false }
}
/// frames [n0, n1, n2] (concrete shape); every non-last frame has Some(sel < len) (what `dive`
/// establishes); the last frame's selection is None or Some(sel < len) with no child frame.
macro_rules! total_harness {
    ($name:ident, [$($n:expr),*], $last_sel:expr) => {
        kproof!($name, 6, {
            let ns = [$($n),*];
            let mut frames = Vec::with_capacity(3);
            let mut d = 0;
            let mut total = 0;
            while d < ns.len() {
                let last = d + 1 == ns.len();
                let sel = if !last || $last_sel {
                    let s: usize = kani::any();
                    kani::assume(s < ns[d]);
                    Some(s)
                } else {
                    None
                };
                frames.push(frame(d, ns[d], sel));
                total += ns[d];
                d += 1;
            }
            let r = IntrospectionResult::verif_from_frames(frames);
            assert!(r.total_len() == total, "C17: total_len is not the number of nodes");
            let k: usize = kani::any();
            kani::assume(k <= total + 2);
            let e = r.total_index(k);
            assert!(e.is_some() == (k < total), "C17: total_index(k).is_some() disagrees with k < total_len()");
            std::mem::forget(e);
            std::mem::forget(r);
            kani::cover!(true, "reached end");
        });
    };
}
pub mod tq {
    use super::*;
    total_harness!(f_3, [3], false);
    total_harness!(f_3_sel, [3], true);
    total_harness!(f_2_2, [2, 2], false);
    total_harness!(f_3_1_2, [3, 1, 2], false);
    total_harness!(f_2_3_sel, [2, 3], true);
    total_harness!(f_0, [0], false);
}
