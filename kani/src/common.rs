//! Stubs and helpers shared by every harness. Every stub is part of the claim (DESIGN §2.3).
use savefile::prelude::*;
use savefile::{Deserializer, Serializer};
use std::io::Cursor;

/// R1: `RandomState::new()` → getrandom syscall. Fixed keys.
pub fn fixed_keys() -> std::collections::hash_map::RandomState {
    unsafe { std::mem::transmute([0u64; 2]) }
}
/// R3: `format!` on error paths. No property asserts message text.
pub fn fmt_stub(_a: core::fmt::Arguments<'_>) -> String {
    String::new()
}
/// R4: ASCII model of String::from_utf8 (non-ASCII is outside the claim).
pub fn from_utf8_stub(v: Vec<u8>) -> Result<String, std::string::FromUtf8Error> {
    let mut i = 0;
    while i < v.len() {
        #[cfg(kani)]
        kani::assume(v[i] < 128);
        i += 1;
    }
    Ok(unsafe { String::from_utf8_unchecked(v) })
}

/// bare_serialize into a fixed array; returns (buffer, bytes written).
pub fn ser<T: Serialize, const N: usize>(x: &T, ver: u32) -> Result<([u8; N], usize), SavefileError> {
    let mut buf = [0u8; N];
    let pos;
    {
        let mut cur = Cursor::new(&mut buf[..]);
        Serializer::bare_serialize(&mut cur, ver, x)?;
        pos = cur.position() as usize;
    }
    Ok((buf, pos))
}
/// bare_deserialize from a slice; returns value and bytes left.
pub fn de<T: Deserialize>(bytes: &[u8], ver: u32) -> Result<(T, usize), SavefileError> {
    let mut rd: &[u8] = bytes;
    let v = Deserializer::bare_deserialize::<T>(&mut rd, ver)?;
    Ok((v, rd.len()))
}

/// Every harness: same three stubs (DESIGN §2.3), explicit unwind bound, straight-line body.
#[macro_export]
macro_rules! kproof {
    ($name:ident, $unwind:expr, $body:block) => {
        #[kani::proof]
        #[kani::stub(std::collections::hash_map::RandomState::new, crate::common::fixed_keys)]
        #[kani::stub(alloc::fmt::format, crate::common::fmt_stub)]
        #[kani::stub(alloc::string::String::from_utf8, crate::common::from_utf8_stub)]
        #[kani::unwind($unwind)]
        pub fn $name() $body
    };
}
