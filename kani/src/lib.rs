#![allow(dead_code, unused_imports, unused_macros, non_snake_case, non_camel_case_types, clippy::all)]
extern crate alloc;
#[macro_use]
pub mod common;
pub mod vt;
pub mod props;
pub mod scmp;
#[macro_use]
pub mod catalogue;
#[macro_use]
pub mod dtypes;
#[cfg(kani)]
mod c02;
#[cfg(kani)]
mod c01;
#[cfg(kani)]
mod c04;
#[cfg(kani)]
mod c05;
#[cfg(kani)]
mod c06;
#[cfg(kani)]
mod c11f;
#[cfg(kani)]
mod c12;
#[cfg(kani)]
mod c07;
#[cfg(kani)]
mod c08;
#[cfg(kani)]
mod c15;
pub mod ledger_version;
#[cfg(kani)]
mod c17;
#[cfg(kani)]
pub mod sgen;
pub mod hgen;
#[cfg(kani)]
mod warmup {
    kproof!(warmup, 4, {
        let x: u8 = kani::any();
        assert!(x as u16 <= 255);
    });
}
