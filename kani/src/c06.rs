//! C06 malformed input: N arbitrary bytes -> real deserializer. No panic, no failed safety check
//! (overflow, out-of-bounds, invalid pointer, unreachable); on Ok: no invalid bool/char/enum bit
//! pattern anywhere in the value, and the value's encoded size <= the bytes consumed ("never claims
//! more elements than the input could have encoded").
use crate::common::*;
use crate::props::*;
use crate::vt::*;
use savefile::prelude::*;

/// `$k` = bound assumed on the declared length prefix (first 8 bytes) for loop-based readers;
/// `u64::MAX` = fully symbolic length (bulk readers).
macro_rules! mal_harness {
    ($name:ident, $t:ty, $n:expr, $unwind:expr, $k:expr) => {
        kproof!($name, $unwind, {
            malformed_check::<$t, $n>($k);
            kani::cover!(true, "reached end");
        });
    };
}
macro_rules! mal_harness_at {
    ($name:ident, $t:ty, $n:expr, $unwind:expr, $lens:expr) => {
        kproof!($name, $unwind, {
            malformed_check_at::<$t, $n>(&$lens);
            kani::cover!(true, "reached end");
        });
    };
}
pub mod q {
    use super::*;
    use crate::dtypes::*;
    mal_harness!(m_u32, u32, 8, 4, u64::MAX);
    mal_harness!(m_bool, bool, 4, 4, u64::MAX);
    mal_harness!(m_char, char, 8, 4, u64::MAX);
    mal_harness!(m_usize, usize, 12, 4, u64::MAX);
    mal_harness!(m_opt_u32, Option<u32>, 8, 4, u64::MAX);
    mal_harness!(m_res_u8_u8, Result<u8, u8>, 4, 4, u64::MAX);
    mal_harness!(m_vec_u32_bulk, Vec<u32>, 16, 4, u64::MAX);
    mal_harness!(m_vec_tup_bulk, Vec<(u8, u8)>, 12, 4, u64::MAX);
    mal_harness!(m_vec_bool_bulk, Vec<bool>, 11, 4, 3);
    mal_harness!(m_arr_bool, [bool; 2], 4, 4, u64::MAX);
    mal_harness!(m_arr_char, [char; 1], 6, 4, u64::MAX);
    mal_harness!(m_string, String, 11, 6, 3);
    mal_harness!(m_vec_usize_loop, Vec<usize>, 26, 5, 2);
    mal_harness!(m_arrayvec, arrayvec::ArrayVec<u8, 3>, 12, 6, u64::MAX);
    mal_harness!(m_arrayvec_loop, arrayvec::ArrayVec<usize, 2>, 32, 6, u64::MAX);
    mal_harness!(m_enum_u8, EqU8, 4, 4, u64::MAX);
    mal_harness!(m_enum_u16, EqU16, 4, 4, u64::MAX);
    mal_harness!(m_enum_data, EqData, 8, 4, u64::MAX);
    mal_harness!(m_vec_enum_bulk, Vec<EqU8>, 11, 4, 3);
    mal_harness!(m_struct_packed, SqPackedC, 10, 4, u64::MAX);
    mal_harness!(m_struct_boolchar, SqBoolChar, 8, 4, u64::MAX);
    mal_harness!(m_ipaddr, std::net::IpAddr, 18, 4, u64::MAX);
    mal_harness!(m_duration, std::time::Duration, 16, 4, u64::MAX);
    mal_harness!(m_systemtime, std::time::SystemTime, 16, 4, u64::MAX);
}
pub mod t {
    use super::*;
    use crate::dtypes::*;
    mal_harness!(m_socketaddr, std::net::SocketAddr, 28, 4, u64::MAX);
    mal_harness_at!(m_tup_u8_string, (u8, String), 12, 6, [(1, 3)]);
    mal_harness_at!(m_opt_string, Option<String>, 12, 6, [(1, 3)]);
    mal_harness!(m_arraystring, arrayvec::ArrayString<3>, 12, 6, u64::MAX);
    mal_harness!(m_boxslice_bulk, Box<[u16]>, 14, 4, u64::MAX);
    mal_harness!(m_arcslice_bulk, std::sync::Arc<[u32]>, 16, 4, u64::MAX);
    mal_harness!(m_vecdeque, std::collections::VecDeque<u8>, 11, 6, 2);
    mal_harness!(m_arr_u16, [u16; 3], 8, 4, u64::MAX);
    mal_harness!(m_enum_u32_data, EqDataU32, 10, 4, u64::MAX);
    mal_harness!(m_enum_u32, EqU32, 6, 4, u64::MAX);
    mal_harness!(m_struct_nested, SqNestedPad, 12, 4, u64::MAX);
    mal_harness_at!(m_struct_mixed, SqMixed, 14, 6, [(1, 3)]);
    mal_harness_at!(m_vec_string_loop, Vec<String>, 20, 6, [(0, 1), (8, 3)]);
    mal_harness!(m_u128, u128, 18, 4, u64::MAX);
    mal_harness!(m_f64, f64, 9, 4, u64::MAX);
    mal_harness!(m_i8, i8, 2, 4, u64::MAX);
    mal_harness!(m_vec_u64_bulk, Vec<u64>, 24, 4, u64::MAX);
    mal_harness!(m_vec_u8_bulk, Vec<u8>, 11, 4, u64::MAX);
}

/// Trait-object schemas (`Schema::Trait`, ABI definitions exchanged between peers) carry the trait
/// name as `name[+Sync][+Send]`; the bytes are untrusted. Structure bytes concrete (R5), the
/// suffix character symbolic.
/// NOT PART OF ANY TIER: `str::split('+')` (CharSearcher / memchr over a symbolic byte) did not finish in
/// 900 s; the `panic!("Unexpected trait name ...")` in `AbiTraitDefinition::deserialize` (observation F3,
/// DESIGN §8) therefore stays an observation from reading, not a decided finding.
pub mod x_tr {
    use super::*;
    use savefile::AbiTraitDefinition;
    macro_rules! trait_name_harness {
        ($name:ident, $len:expr, $bytes:expr, $symidx:expr) => {
            kproof!($name, 12, {
                let mut bytes = [0u8; 8 + $len + 8];
                bytes[0] = $len as u8;
                let nb: [u8; $len] = $bytes;
                bytes[8..8 + $len].copy_from_slice(&nb);
                let c: u8 = anyv::<u8>();
                assume(c < 128);
                bytes[8 + $symidx] = c;
                match de::<AbiTraitDefinition>(&bytes, 0) {
                    Ok((v, _left)) => {
                        kani::cover!(true, "Ok returned");
                        std::mem::forget(v);
                    }
                    Err(e) => std::mem::forget(e),
                }
                kani::cover!(true, "reached end");
            });
        };
    }
    // "a+?" : one-character suffix, every ASCII value
    trait_name_harness!(m_traitdef_suffix1, 3, [b'a', b'+', b'b'], 2);
    // "a?b" : the separator position itself symbolic
    trait_name_harness!(m_traitdef_sep, 3, [b'a', b'+', b'b'], 1);
}
