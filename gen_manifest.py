#!/usr/bin/env python3
"""Regenerates MANIFEST.json from manifest_src.json (per-property texts) + checks.json."""
import json, os
V = os.path.dirname(os.path.abspath(__file__))
src = json.load(open(os.path.join(V, "manifest_src.json")))
cfg = json.load(open(os.path.join(V, "checks.json")))
checks = []
for pid in sorted(cfg["properties"]):
    if pid not in src["claimed"]:
        continue
    c = src["claimed"][pid]
    entry = {
        "property_id": pid,
        "quick_cmd": "./check %s --tier quick" % pid,
        "evidence_file": "/verif/evidence/%s.json" % pid,
        "replay_cmd_template": "./check %s --replay {path}" % pid,
        "engine": c.get("engine", "kani-cbmc"),
        "level_claimed": {"category": "model_checking", "text": c["text"], "design_ref": c.get("design_ref", "DESIGN.md §5 " + pid)},
        "level_note": c["note"],
        "technique": c.get("technique", "bounded model checking of the compiled Rust code (Kani 0.68 -> CBMC 6.11, SAT) over symbolic inputs, unwinding assertions on; counterexamples replayed natively"),
    }
    # a thorough command is only registered once a full thorough run has been seen to finish (exit 0) on the unchanged tree
    if cfg["properties"][pid].get("thorough_validated"):
        entry["thorough_cmd"] = "./check %s --tier thorough" % pid
    checks.append(entry)
na = [{"property_id": k, "reason": v} for k, v in sorted(src["not_applicable"].items()) if k not in src["claimed"] or k not in cfg["properties"]]
m = {
    "version": 1,
    "setup_cmd": src["setup_cmd"],
    "hooks": src["hooks"],
    "engines": src["engines"],
    "checks": checks,
    "notes": src["notes"],
    "not_applicable": na,
}
json.dump(m, open(os.path.join(V, "MANIFEST.json"), "w"), indent=1)
print("claimed:", [c["property_id"] for c in checks], "n/a:", [n["property_id"] for n in na])
