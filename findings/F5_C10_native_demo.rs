mod r0 {
    use savefile::prelude::*;
    #[derive(Savefile, Debug)]
    pub struct Ret { pub a: u8, pub b: u8 }
    #[savefile_abi_exportable(version = 0)]
    pub trait Get { fn get(&self) -> Ret; }
}
mod r1 {
    use savefile::prelude::*;
    #[derive(Savefile, Debug)]
    pub struct Ret {
        #[savefile_versions = "1.."]
        pub n: u8,
        pub a: u8,
        pub b: u8,
    }
    #[savefile_abi_exportable(version = 1)]
    pub trait Get { fn get(&self) -> Ret; }
    #[derive(Default)]
    pub struct Get1;
    impl Get for Get1 { fn get(&self) -> Ret { Ret { n: 1, a: 2, b: 3 } } }
}
#[test]
fn f5_old_caller_new_impl_return_value() {
    use savefile_abi::AbiConnection;
    let imp: Box<dyn r1::Get> = Box::new(r1::Get1);
    let conn = unsafe { AbiConnection::<dyn r0::Get>::from_boxed_trait_for_test(<dyn r1::Get as savefile_abi::AbiExportable>::ABI_ENTRY, imp) }.unwrap();
    let r = r0::Get::get(&conn);
    assert_eq!((r.a, r.b), (2, 3));
}
