// property=C04 crate=kani harness=c04::vec::t::t_arr0 test=kani_concrete_playback_t_arr0_9034693067027612347
// Concrete counterexample produced by CBMC; replay with: ./check C04 --replay /verif/replays/C04/c04__vec__t__t_arr0.rs
/// Test generated for harness `c04::vec::t::t_arr0` 
///
/// Check for `safety_check`: "misaligned pointer to reference cast: address must be a multiple of its type's alignment"
///
/// # Warning
///
/// Concrete playback tests combined with stubs or contracts is highly
/// experimental, and subject to change.
///
/// The original harness has stubs which are not applied to this test.
/// This may cause a mismatch of non-deterministic values if the stub
/// creates any non-deterministic value.
/// The execution path may also differ, which can be used to refine the stub
/// logic.

#[test]
fn kani_concrete_playback_t_arr0_9034693067027612347() {
    let concrete_vals: Vec<Vec<u8>> = vec![
        // 0ul
        vec![0, 0, 0, 0, 0, 0, 0, 0],
    ];
    kani::concrete_playback_run(concrete_vals, t_arr0);
}
