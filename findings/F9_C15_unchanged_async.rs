// property=C15 crate=kani harness=c15::q::unchanged test=kani_concrete_playback_unchanged_3055030493225496619
// Concrete counterexample produced by CBMC; replay with: ./check C15 --replay /verif/replays/C15/c15__q__unchanged.rs
/// Test generated for harness `c15::q::unchanged` 
///
/// Check for `assertion`: "C15: the compatibility check fails on a later run for an unchanged interface"
///
/// # Warning
///
/// Concrete playback tests combined with stubs or contracts is highly
/// experimental, and subject to change.
///
/// The original harness has stubs which are not applied to this test.
/// This may cause a mismatch of non-deterministic values if the stub
/// creates any non-deterministic value.
/// The execution path may also differ, which can be used to refine the stub
/// logic.

#[test]
fn kani_concrete_playback_unchanged_3055030493225496619() {
    let concrete_vals: Vec<Vec<u8>> = vec![
        // 1
        vec![1],
    ];
    kani::concrete_playback_run(concrete_vals, unchanged);
}
