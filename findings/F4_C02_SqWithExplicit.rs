// property=C02 crate=kani harness=c02::dq::d_SqWithExplicit test=kani_concrete_playback_d_SqWithExplicit_9326250259546801534
// Concrete counterexample produced by CBMC; replay with: ./check C02 --replay /verif/replays/C02/c02__dq__d_SqWithExplicit.rs
/// Test generated for harness `c02::dq::d_SqWithExplicit` 
///
/// Check for `assertion`: ""C02: encoded byte differs from the reference encoding""
///
/// # Warning
///
/// Concrete playback tests combined with stubs or contracts is highly
/// experimental, and subject to change.
///
/// The original harness has stubs which are not applied to this test.
/// This may cause a mismatch of non-deterministic values if the stub
/// creates any non-deterministic value.
/// The execution path may also differ, which can be used to refine the stub
/// logic.

#[test]
fn kani_concrete_playback_d_SqWithExplicit_9326250259546801534() {
    let concrete_vals: Vec<Vec<u8>> = vec![
        // 0
        vec![0],
        // 0
        vec![0],
        // 0ul
        vec![0, 0, 0, 0, 0, 0, 0, 0],
    ];
    kani::concrete_playback_run(concrete_vals, d_SqWithExplicit);
}
