// property=C06 crate=kani harness=c06::q::m_systemtime test=kani_concrete_playback_m_systemtime_943402580342083789
// Concrete counterexample produced by CBMC; replay with: ./check C06 --replay /verif/replays/C06/c06__q__m_systemtime.rs
/// Test generated for harness `c06::q::m_systemtime` 
///
/// Check for `assertion`: "This is a placeholder message; Kani doesn't support message formatted at runtime"
///
/// # Warning
///
/// Concrete playback tests combined with stubs or contracts is highly
/// experimental, and subject to change.
///
/// The original harness has stubs which are not applied to this test.
/// This may cause a mismatch of non-deterministic values if the stub
/// creates any non-deterministic value.
/// The execution path may also differ, which can be used to refine the stub
/// logic.

#[test]
fn kani_concrete_playback_m_systemtime_943402580342083789() {
    let concrete_vals: Vec<Vec<u8>> = vec![
        // 255
        vec![255],
        // 225
        vec![225],
        // 187
        vec![187],
        // 139
        vec![139],
        // 69
        vec![69],
        // 176
        vec![176],
        // 212
        vec![212],
        // 81
        vec![81],
        // 126
        vec![126],
        // 225
        vec![225],
        // 23
        vec![23],
        // 252
        vec![252],
        // 87
        vec![87],
        // 157
        vec![157],
        // 175
        vec![175],
        // 148
        vec![148],
    ];
    kani::concrete_playback_run(concrete_vals, m_systemtime);
}
