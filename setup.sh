#!/bin/sh
# Offline warm-up: build the dependencies of the harness crates once with Kani's toolchain by
# running one tiny harness per crate. Not required for correctness: every check rebuilds whatever
# changed in /repo or /verif.
cd "$(dirname "$0")"
export CARGO_NET_OFFLINE=true
python3 gen/generate.py >/dev/null 2>&1
for c in kani kani_abi; do
  [ -d "$c" ] || continue
  [ -f "$c/Cargo.lock" ] || cp /repo/Cargo.lock "$c/Cargo.lock"
  (cd "$c" && cargo kani -Z stubbing -Z unstable-options --harness warmup::warmup --exact --target-dir "../.build/$c" --cbmc-args --max-field-sensitivity-array-size 4096 >/dev/null 2>&1) || echo "warm-up of $c failed (checks will rebuild)"
done
exit 0
