#!/bin/sh
# Offline warm-up: compile the harness crates once with Kani (codegen only). Not required for
# correctness: every check rebuilds whatever changed in /repo or /verif.
set -e
cd "$(dirname "$0")"
export CARGO_NET_OFFLINE=true
for c in kani kani_abi; do
  [ -d "$c" ] || continue
  [ -f "$c/Cargo.lock" ] || cp /repo/Cargo.lock "$c/Cargo.lock"
  (cd "$c" && cargo kani -Z stubbing -Z unstable-options --only-codegen --target-dir "../.build/$c" >/dev/null 2>&1) || echo "warm-up of $c failed (checks will rebuild)"
done
exit 0
