//! Native oracle / replay program for engine 2 (smt/run_smt.py). Built against the repository's
//! current tree. Reads commands on stdin, one per line, answers one line each:
//!   dur_ser <secs> <nanos>      -> "OK <u128>" | "ERR" | "PANIC"
//!   dur_de  <u128>              -> "OK <secs> <nanos>" | "ERR" | "PANIC"
//!   st_ser  <secs i64> <nanos>  -> "OK <u128>" | "ERR" | "PANIC" | "UNREP" (value not constructible)
//!   st_de   <u128>              -> "OK <secs i64> <nanos>" | "ERR" | "PANIC"
use savefile::{Deserializer, Serializer};
use std::io::BufRead;
use std::panic::catch_unwind;
use std::time::{Duration, SystemTime};

fn mk_st(s: i64, n: u32) -> Option<SystemTime> {
    if s >= 0 {
        SystemTime::UNIX_EPOCH.checked_add(Duration::new(s as u64, n))
    } else {
        SystemTime::UNIX_EPOCH
            .checked_sub(Duration::new(s.unsigned_abs(), 0))?
            .checked_add(Duration::new(0, n))
    }
}
fn st_parts(t: SystemTime) -> (i64, u32) {
    match t.duration_since(SystemTime::UNIX_EPOCH) {
        Ok(d) => (d.as_secs() as i64, d.subsec_nanos()),
        Err(e) => {
            let d = e.duration();
            if d.subsec_nanos() == 0 {
                ((d.as_secs() as i128).wrapping_neg() as i64, 0)
            } else {
                ((-(d.as_secs() as i128) - 1) as i64, 1_000_000_000 - d.subsec_nanos())
            }
        }
    }
}
fn ser<T: savefile::Serialize>(x: &T) -> Option<u128> {
    let mut v = Vec::new();
    Serializer::bare_serialize(&mut v, 0, x).ok()?;
    if v.len() != 16 {
        return None;
    }
    let mut b = [0u8; 16];
    b.copy_from_slice(&v);
    Some(u128::from_le_bytes(b))
}
fn de<T: savefile::Deserialize>(w: u128) -> Option<T> {
    let b = w.to_le_bytes();
    let mut r = &b[..];
    Deserializer::bare_deserialize::<T>(&mut r, 0).ok()
}
fn main() {
    std::panic::set_hook(Box::new(|_| {}));
    for line in std::io::stdin().lock().lines() {
        let line = line.unwrap();
        let p: Vec<&str> = line.split_whitespace().collect();
        if p.is_empty() {
            continue;
        }
        let out = match p[0] {
            "dur_ser" => {
                let (s, n): (u64, u32) = (p[1].parse().unwrap(), p[2].parse().unwrap());
                match catch_unwind(|| ser(&Duration::new(s, n))) {
                    Ok(Some(w)) => format!("OK {}", w),
                    Ok(None) => "ERR".into(),
                    Err(_) => "PANIC".into(),
                }
            }
            "dur_de" => {
                let w: u128 = p[1].parse().unwrap();
                match catch_unwind(|| de::<Duration>(w)) {
                    Ok(Some(d)) => format!("OK {} {}", d.as_secs(), d.subsec_nanos()),
                    Ok(None) => "ERR".into(),
                    Err(_) => "PANIC".into(),
                }
            }
            "st_ser" => {
                let (s, n): (i64, u32) = (p[1].parse().unwrap(), p[2].parse().unwrap());
                match mk_st(s, n) {
                    None => "UNREP".into(),
                    Some(t) => match catch_unwind(|| ser(&t)) {
                        Ok(Some(w)) => format!("OK {}", w),
                        Ok(None) => "ERR".into(),
                        Err(_) => "PANIC".into(),
                    },
                }
            }
            "st_de" => {
                let w: u128 = p[1].parse().unwrap();
                match catch_unwind(|| de::<SystemTime>(w)) {
                    Ok(Some(t)) => {
                        let (s, n) = st_parts(t);
                        format!("OK {} {}", s, n)
                    }
                    Ok(None) => "ERR".into(),
                    Err(_) => "PANIC".into(),
                }
            }
            _ => "?".into(),
        };
        println!("{}", out);
    }
}
