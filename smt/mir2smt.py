#!/usr/bin/env python3
"""Engine 2: a small symbolic executor for loop-free MIR (rustc -Zunpretty=mir) that emits SMT-LIB.

Machine integers are encoded as mathematical integers *with explicit range side conditions and
explicit wrap-around* (truncating casts, WithOverflow tuples) so that the mod-2^k semantics is kept
while division / remainder / multiplication by constants stay linear (fresh q, r with a = q*d + r,
0 <= r < d).  Anything the executor does not understand raises Unsupported -> the caller answers
"inconclusive", never "holds".

Paths are enumerated (the encoded functions are loop free); every path carries
  conds   : list of SMT boolean terms (path condition + defining equations of fresh variables)
  outcome : ("return", value) | ("panic", message)
  out     : list of u128 terms passed to write_u128
Std callees are replaced by the documented pure models listed in MODELS (part of the claim).
"""
import re

NS = 1000000000


class Unsupported(Exception):
    pass


# ----------------------------------------------------------------------------- values
class V:
    pass


class I(V):
    """integer (or bool) value: term is a python int (constant) or an SMT string; ty like 'u128','bool'"""
    def __init__(self, term, ty):
        self.term, self.ty = term, ty

    def const(self):
        return isinstance(self.term, int)

    def smt(self):
        return smt_int(self.term)

    def __repr__(self):
        return "I(%s:%s)" % (self.term, self.ty)


class Dur(V):
    def __init__(self, secs, nanos):
        self.secs, self.nanos = secs, nanos  # I u64, I u32


class ST(V):
    """SystemTime on unix: (tv_sec: i64, tv_nsec in 0..1e9)"""
    def __init__(self, secs, nanos):
        self.secs, self.nanos = secs, nanos


class En(V):
    def __init__(self, variant, fields):
        self.variant, self.fields = variant, fields

    def __repr__(self):
        return "En(%s,%s)" % (self.variant, self.fields)


class Tup(V):
    def __init__(self, fields):
        self.fields = fields


class Opaque(V):
    def __init__(self, label):
        self.label = label

    def __repr__(self):
        return "Opaque(%s)" % self.label


def smt_int(t):
    if isinstance(t, bool):
        return "true" if t else "false"
    if isinstance(t, int):
        return str(t) if t >= 0 else "(- %d)" % (-t)
    return t


def width(ty):
    if ty in ("usize", "isize"):
        return 64
    m = re.fullmatch(r"[ui](\d+)", ty)
    if not m:
        raise Unsupported("width of " + ty)
    return int(m.group(1))


def signed(ty):
    return ty[0] == "i"


def rng(ty):
    w = width(ty)
    return (-(1 << (w - 1)), (1 << (w - 1)) - 1) if signed(ty) else (0, (1 << w) - 1)


DISCR = {"Ok": 0, "Err": 1, "Continue": 0, "Break": 1, "None": 0, "Some": 1}


# ----------------------------------------------------------------------------- MIR parsing
class Fn:
    def __init__(self, header, name):
        self.header, self.name = header, name
        self.args, self.types, self.blocks = [], {}, {}


def parse_mir(text):
    """returns {name: Fn}; name is the text between 'fn '/'const ' and the argument list / ':'"""
    fns = {}
    cur, bb = None, None
    for raw in text.splitlines():
        line = raw.rstrip()
        m = re.match(r"^(fn) (.*?)(\((.*)\) -> (.*?)) \{$", line) or re.match(r"^(const) (.*promoted\[\d+\])(: (.*?) =) \{$", line)
        if m and not raw.startswith(" "):
            name = m.group(2)
            cur = Fn(line, name)
            fns[name] = cur
            if m.group(1) == "fn":
                for a in split_top(m.group(4)):
                    a = a.strip()
                    if a:
                        am = re.match(r"(_\d+): (.*)", a)
                        cur.args.append(am.group(1))
                        cur.types[am.group(1)] = am.group(2)
            bb = None
            continue
        if cur is None:
            continue
        if raw.startswith("}"):
            cur, bb = None, None
            continue
        s = line.strip()
        m = re.match(r"let (mut )?(_\d+): (.*);$", s)
        if m:
            cur.types[m.group(2)] = m.group(3)
            continue
        m = re.match(r"(bb\d+)( \(cleanup\))?: \{$", s)
        if m:
            bb = m.group(1)
            cur.blocks[bb] = []
            continue
        if s == "}" or not s or s.startswith("debug ") or s.startswith("scope "):
            continue
        if bb is not None:
            cur.blocks[bb].append(s)
    return fns


def split_top(s):
    out, depth, cur = [], 0, ""
    for ch in s:
        if ch in "(<[{":
            depth += 1
        elif ch in ")>]}":
            depth -= 1
        if ch == "," and depth == 0:
            out.append(cur)
            cur = ""
        else:
            cur += ch
    if cur.strip():
        out.append(cur)
    return out


# ----------------------------------------------------------------------------- executor
class Path:
    def __init__(self, conds=None, out=None, tape=None, notes=None):
        self.conds = list(conds or [])
        self.out = list(out or [])
        self.tape = list(tape or [])
        self.notes = list(notes or [])

    def fork(self):
        return Path(self.conds, self.out, self.tape, self.notes)


class Exec:
    def __init__(self, fns):
        self.fns = fns
        self.nfresh = 0
        self.decls = []
        self.encoded = set()
        self.models_used = set()

    def fresh(self, hint, ty, path, lo=None, hi=None):
        self.nfresh += 1
        n = "%s!%d" % (hint, self.nfresh)
        self.decls.append(n)
        if ty != "bool":
            l, h = rng(ty)
            lo = l if lo is None else lo
            hi = h if hi is None else hi
            path.conds.append("(and (<= %s %s) (<= %s %s))" % (smt_int(lo), n, n, smt_int(hi)))
        return I(n, ty)

    # ---- arithmetic helpers (Int theory, explicit wrap)
    def wrap(self, term, ty, path, hint="w"):
        """value of `term` reduced into the range of ty (two's complement)"""
        lo, hi = rng(ty)
        if isinstance(term, int):
            m = 1 << width(ty)
            v = term % m
            if signed(ty) and v > hi:
                v -= m
            return I(v, ty)
        r = self.fresh(hint, ty, path)
        self.nfresh += 1
        k = "k!%d" % self.nfresh
        self.decls.append(k)
        path.conds.append("(= %s (+ %s (* %s %d)))" % (term, r.term, k, 1 << width(ty)))
        return r

    def divrem(self, a, d, path):
        if not isinstance(d, int) or d <= 0:
            raise Unsupported("division by non-constant or non-positive divisor")
        if a.const():
            return I(a.term // d, a.ty), I(a.term % d, a.ty)
        if signed(a.ty):
            raise Unsupported("signed division")
        q = self.fresh("q", a.ty, path)
        r = self.fresh("r", a.ty, path, 0, d - 1)
        path.conds.append("(= %s (+ (* %s %d) %s))" % (a.term, q.term, d, r.term))
        return q, r

    def binop(self, op, a, b, path):
        if op in ("Lt", "Le", "Gt", "Ge", "Eq", "Ne"):
            if a.const() and b.const():
                x, y = a.term, b.term
                return I({"Lt": x < y, "Le": x <= y, "Gt": x > y, "Ge": x >= y, "Eq": x == y, "Ne": x != y}[op], "bool")
            sy = {"Lt": "<", "Le": "<=", "Gt": ">", "Ge": ">=", "Eq": "=", "Ne": "distinct"}[op]
            return I("(%s %s %s)" % (sy, a.smt(), b.smt()), "bool")
        ovf = op.endswith("WithOverflow")
        base = op[:-12] if ovf else op
        if base in ("Add", "Sub"):
            sy = "+" if base == "Add" else "-"
            if a.const() and b.const():
                exact = a.term + b.term if base == "Add" else a.term - b.term
            else:
                exact = "(%s %s %s)" % (sy, a.smt(), b.smt())
            lo, hi = rng(a.ty)
            if isinstance(exact, int):
                o = I(not (lo <= exact <= hi), "bool")
            else:
                o = I("(or (< %s %s) (> %s %s))" % (exact, smt_int(lo), exact, smt_int(hi)), "bool")
            res = self.wrap(exact, a.ty, path)
            return Tup([res, o]) if ovf else res
        if base == "Mul":
            if a.const() and b.const():
                exact = a.term * b.term
            elif a.const() or b.const():
                exact = "(* %s %s)" % (a.smt(), b.smt())
            else:
                raise Unsupported("symbolic * symbolic")
            lo, hi = rng(a.ty)
            o = I(not (lo <= exact <= hi), "bool") if isinstance(exact, int) else I("(or (< %s %s) (> %s %s))" % (exact, smt_int(lo), exact, smt_int(hi)), "bool")
            res = self.wrap(exact, a.ty, path)
            return Tup([res, o]) if ovf else res
        if base in ("Div", "Rem"):
            if not b.const():
                raise Unsupported("division by a symbolic value")
            q, r = self.divrem(a, b.term, path)
            return q if base == "Div" else r
        if base == "Shl":
            if a.const() and b.const():
                return self.wrap(a.term << (b.term % width(a.ty)), a.ty, path)
            if b.const():
                return self.wrap("(* %s %d)" % (a.smt(), 1 << (b.term % width(a.ty))), a.ty, path)
            raise Unsupported("shift by symbolic amount")
        if base == "Shr":
            if b.const() and not signed(a.ty):
                q, _ = self.divrem(a, 1 << (b.term % width(a.ty)), path)
                return q
            raise Unsupported("Shr")
        if base in ("BitAnd", "BitOr"):
            if a.const() and b.const():
                return I(a.term & b.term if base == "BitAnd" else a.term | b.term, a.ty)
            if a.const():
                a, b = b, a
            if not b.const() or signed(a.ty):
                raise Unsupported("bit operation on two symbolic values")
            m = b.term
            w = width(a.ty)
            if base == "BitAnd" and m & (m + 1) == 0:  # mask 2^k - 1
                if m == (1 << w) - 1:
                    return a
                _, r = self.divrem(a, m + 1, path)
                return r
            if base == "BitOr" and m != 0 and m & (m - 1) == 0:  # single bit 2^k
                # a = hi*2^(k+1) + bit*2^k + lo
                lo = self.fresh("lo", a.ty, path, 0, m - 1)
                bit = self.fresh("bit", a.ty, path, 0, 1)
                hi = self.fresh("hi", a.ty, path)
                path.conds.append("(= %s (+ (* %s %d) (* %s %d) %s))" % (a.smt(), hi.term, 2 * m, bit.term, m, lo.term))
                return I("(+ %s (* (- 1 %s) %d))" % (a.smt(), bit.term, m), a.ty)
            raise Unsupported("bit operation with mask %#x" % m)
        raise Unsupported("binop " + op)

    def cast(self, v, ty, path):
        if not isinstance(v, I):
            raise Unsupported("cast of non-integer")
        if v.ty == "bool":
            if v.const():
                return I(int(v.term), ty)
            return I("(ite %s 1 0)" % v.term, ty)
        lo, hi = rng(ty)
        slo, shi = rng(v.ty)
        if lo <= slo and shi <= hi:
            return I(v.term, ty)
        return self.wrap(v.term, ty, path, "c")

    # ---- operands / places
    def const_operand(self, s, fn):
        s = s.strip()
        m = re.fullmatch(r"(-?\d+)_([ui](?:\d+|size))", s)
        if m:
            return I(int(m.group(1)), m.group(2))
        if s in ("true", "false"):
            return I(s == "true", "bool")
        if s == "()":
            return Tup([])
        m = re.fullmatch(r"core::num::<impl ([ui]\d+|usize|isize)>::(MAX|MIN)", s)
        if m:
            lo, hi = rng(m.group(1))
            return I(hi if m.group(2) == "MAX" else lo, m.group(1))
        if s in ("std::time::SystemTime::UNIX_EPOCH", "SystemTime::UNIX_EPOCH"):
            self.models_used.add("SystemTime::UNIX_EPOCH = (0 s, 0 ns)")
            return ST(I(0, "i64"), I(0, "u32"))
        m = re.search(r"promoted\[(\d+)\]$", s)
        if m:
            pname = "%s::promoted[%s]" % (fn.name, m.group(1))
            if pname not in self.fns:
                raise Unsupported("promoted constant not found: " + pname)
            res = self.run(pname, [], Path())
            if len(res) != 1 or res[0][1][0] != "return":
                raise Unsupported("promoted constant with control flow")
            return res[0][1][1]
        if s.startswith('"'):
            return Opaque("str")
        raise Unsupported("constant " + s)

    def operand(self, s, env, fn, path):
        s = s.strip()
        if s.startswith("const "):
            return self.const_operand(s[6:], fn)
        if s.startswith("copy ") or s.startswith("move "):
            return self.place(s[5:], env)
        raise Unsupported("operand " + s)

    def place(self, s, env):
        s = s.strip()
        if re.fullmatch(r"_\d+", s):
            if s not in env:
                raise Unsupported("read of unassigned local " + s)
            return env[s]
        m = re.fullmatch(r"\(\((.+) as (\w+)\)\.(\d+): (.+)\)", s)
        if m:
            base = self.place(m.group(1), env)
            if not isinstance(base, En):
                raise Unsupported("downcast of non-enum")
            if base.variant != m.group(2):
                raise Unsupported("downcast to %s of value in variant %s" % (m.group(2), base.variant))
            return base.fields[int(m.group(3))]
        m = re.fullmatch(r"\((.+)\.(\d+): (.+)\)", s)
        if m:
            base = self.place(m.group(1), env)
            if isinstance(base, Tup):
                return base.fields[int(m.group(2))]
            raise Unsupported("field projection of " + type(base).__name__)
        m = re.fullmatch(r"\(\*(.+)\)", s)
        if m:
            return self.place(m.group(1), env)  # references are modelled by the value they point to (read-only use)
        raise Unsupported("place " + s)

    def rvalue(self, s, env, fn, path):
        s = s.strip()
        m = re.fullmatch(r"(\w+)\((.*)\)", s)
        if m and m.group(1) in ("Add", "Sub", "Mul", "Div", "Rem", "Shl", "Shr", "BitAnd", "BitOr", "Lt", "Le", "Gt", "Ge", "Eq", "Ne",
                                "AddWithOverflow", "SubWithOverflow", "MulWithOverflow"):
            a, b = [self.operand(x, env, fn, path) for x in split_top(m.group(2))]
            if not (isinstance(a, I) and isinstance(b, I)):
                raise Unsupported("binop on non-integers")
            return self.binop(m.group(1), a, b, path)
        m = re.fullmatch(r"(.+) as ([ui](?:\d+|size)) \(IntToInt\)", s)
        if m:
            return self.cast(self.operand(m.group(1), env, fn, path), m.group(2), path)
        m = re.fullmatch(r"Not\((.+)\)", s)
        if m:
            v = self.operand(m.group(1), env, fn, path)
            if v.ty != "bool":
                raise Unsupported("Not on integer")
            return I((not v.term) if v.const() else "(not %s)" % v.term, "bool")
        m = re.fullmatch(r"discriminant\((.+)\)", s)
        if m:
            v = self.place(m.group(1), env)
            if not isinstance(v, En) or v.variant not in DISCR:
                raise Unsupported("discriminant of " + repr(v))
            return I(DISCR[v.variant], "isize")
        m = re.fullmatch(r"&(mut )?(.+)", s)
        if m:
            return self.place(m.group(2), env)
        # enum constructors: Result::<..>::Ok(x), Option::<..>::Some(x), Option::<..>::None
        m = re.fullmatch(r"(?:std::result::)?Result::<.*>::(Ok|Err)\((.*)\)", s)
        if m:
            return En(m.group(1), [self.operand(m.group(2), env, fn, path)])
        m = re.fullmatch(r"SavefileError::(\w+)( \{.*\})?", s)
        if m:
            return Opaque("SavefileError::" + m.group(1))
        if s.startswith("copy ") or s.startswith("move ") or s.startswith("const "):
            return self.operand(s, env, fn, path)
        raise Unsupported("rvalue " + s)

    # ---- std models: each returns list of (path, value-or-("panic",msg))
    def call(self, callee, args, path, fn):
        c = re.sub(r"::<'_, impl (Read|Write)>", "", callee)
        if c == "Duration::as_nanos":
            d = args[0]
            self.models_used.add("Duration::as_nanos(d) = d.secs * 10^9 + d.nanos (u128, cannot overflow)")
            return [(path, I("(+ (* %s %d) %s)" % (d.secs.smt(), NS, d.nanos.smt()), "u128"))]
        if c == "Duration::from_secs":
            self.models_used.add("Duration::from_secs(s) = (s, 0)")
            return [(path, Dur(args[0], I(0, "u32")))]
        if c == "Duration::from_nanos":
            self.models_used.add("Duration::from_nanos(n) = (n / 10^9, n % 10^9)")
            q, r = self.divrem(args[0], NS, path)
            return [(path, Dur(I(q.term, "u64"), I(r.term, "u32")))]
        if c == "<Duration as Add>::add":
            self.models_used.add("<Duration as Add>::add = checked_add, panics on u64 seconds overflow (carry from nanos >= 10^9)")
            a, b = args
            n = "(+ %s %s)" % (a.nanos.smt(), b.nanos.smt())
            carry = "(ite (>= %s %d) 1 0)" % (n, NS)
            s = "(+ %s %s %s)" % (a.secs.smt(), b.secs.smt(), carry)
            p_ok, p_bad = path.fork(), path.fork()
            p_bad.conds.append("(> %s %d)" % (s, (1 << 64) - 1))
            p_ok.conds.append("(<= %s %d)" % (s, (1 << 64) - 1))
            return [(p_ok, Dur(I(s, "u64"), I("(- %s (* %s %d))" % (n, carry, NS), "u32"))),
                    (p_bad, ("panic", "overflow when adding durations"))]
        if c == "Deserializer::read_u128":
            self.models_used.add("Deserializer::read_u128 = next value of the input tape (Ok) | Err(io)")
            p_ok, p_err = path.fork(), path.fork()
            if p_ok.tape:
                v = p_ok.tape.pop(0)
            else:
                v = self.fresh("in", "u128", p_ok)
            p_err.notes.append("io_error")
            return [(p_ok, En("Ok", [v])), (p_err, En("Err", [Opaque("io")]))]
        if c == "Serializer::write_u128":
            self.models_used.add("Serializer::write_u128 = append to the output tape (Ok) | Err(io)")
            p_ok, p_err = path.fork(), path.fork()
            p_ok.out.append(args[1])
            p_err.notes.append("io_error")
            return [(p_ok, En("Ok", [Tup([])])), (p_err, En("Err", [Opaque("io")]))]
        if re.fullmatch(r"<Result<.*> as Try>::branch", c):
            r = args[0]
            if r.variant == "Ok":
                return [(path, En("Continue", r.fields))]
            return [(path, En("Break", [En("Err", r.fields)]))]
        if re.fullmatch(r"<Result<.*> as FromResidual<.*>>::from_residual", c):
            return [(path, En("Err", args[0].fields))]
        if c == "<str as ToString>::to_string":
            return [(path, Opaque("String"))]
        if c == "SystemTime::duration_since":
            self.models_used.add("SystemTime::duration_since(t, e): Ok(t - e) if t >= e else Err(SystemTimeError(e - t)); unix Timespec (i64 s, ns < 10^9)")
            t, e = args
            if not (isinstance(e, ST) and e.secs.const() and e.secs.term == 0 and e.nanos.const() and e.nanos.term == 0):
                raise Unsupported("duration_since with an origin other than UNIX_EPOCH")
            p_ok, p_err = path.fork(), path.fork()
            p_ok.conds.append("(>= %s 0)" % t.secs.smt())
            p_err.conds.append("(< %s 0)" % t.secs.smt())
            borrow = "(ite (> %s 0) 1 0)" % t.nanos.smt()
            ds = "(- (- 0 %s) %s)" % (t.secs.smt(), borrow)
            dn = "(ite (> %s 0) (- %d %s) 0)" % (t.nanos.smt(), NS, t.nanos.smt())
            return [(p_ok, En("Ok", [Dur(I(t.secs.term, "u64"), t.nanos)])),
                    (p_err, En("Err", [Dur(I(ds, "u64"), I(dn, "u32"))]))]
        if c == "SystemTimeError::duration":
            return [(path, args[0])]
        if c in ("SystemTime::checked_add", "SystemTime::checked_sub"):
            self.models_used.add("SystemTime::checked_add/checked_sub(t, d): None iff the i64 second count over/underflows (nanosecond carry/borrow included)")
            t, d = args
            if c.endswith("add"):
                n = "(+ %s %s)" % (t.nanos.smt(), d.nanos.smt())
                carry = "(ite (>= %s %d) 1 0)" % (n, NS)
                s = "(+ %s %s %s)" % (t.secs.smt(), d.secs.smt(), carry)
                nn = "(- %s (* %s %d))" % (n, carry, NS)
            else:
                n = "(- %s %s)" % (t.nanos.smt(), d.nanos.smt())
                carry = "(ite (< %s 0) 1 0)" % n
                s = "(- (- %s %s) %s)" % (t.secs.smt(), d.secs.smt(), carry)
                nn = "(+ %s (* %s %d))" % (n, carry, NS)
            lo, hi = rng("i64")
            p_some, p_none = path.fork(), path.fork()
            p_some.conds.append("(and (<= %s %s) (<= %s %s))" % (smt_int(lo), s, s, smt_int(hi)))
            p_none.conds.append("(or (< %s %s) (> %s %s))" % (s, smt_int(lo), s, smt_int(hi)))
            return [(p_some, En("Some", [ST(I(s, "i64"), I(nn, "u32"))])), (p_none, En("None", []))]
        if c in ("<SystemTime as Add<Duration>>::add", "<SystemTime as Sub<Duration>>::sub"):
            self.models_used.add("<SystemTime as Add/Sub<Duration>>: checked_add/checked_sub(..).expect(..) - panics when out of range")
            out = []
            for p, v in self.call("SystemTime::checked_" + c[-3:], args, path, fn):
                out.append((p, v.fields[0] if v.variant == "Some" else ("panic", "overflow when adding/subtracting duration to/from instant")))
            return out
        if re.fullmatch(r"Option::<.*>::ok_or::<.*>", c):
            o, e = args
            return [(path, En("Ok", o.fields) if o.variant == "Some" else En("Err", [e]))]
        if c in self.fns:
            out = []
            for p, oc in self.run(c, args, path):
                out.append((p, oc[1] if oc[0] == "return" else oc))
            return out
        raise Unsupported("call to unmodelled function " + callee)

    # ---- run one function: returns list of (path, ("return", v) | ("panic", msg))
    def run(self, name, args, path):
        fn = self.fns[name]
        self.encoded.add(name)
        env = dict(zip(fn.args, args))
        results = []
        work = [("bb0", env, path, 0)]
        while work:
            bb, env, path, steps = work.pop()
            if steps > 200:
                raise Unsupported("more than 200 blocks on one path (loop?)")
            stmts = fn.blocks.get(bb)
            if stmts is None:
                raise Unsupported("missing block " + bb)
            env = dict(env)
            for s in stmts[:-1]:
                if s.startswith(("StorageLive", "StorageDead", "nop", "FakeRead", "PlaceMention", "Retag", "AscribeUserType", "Coverage")):
                    continue
                m = re.match(r"(_\d+|\(.+\)) = (.*);$", s)
                if not m:
                    raise Unsupported("statement " + s)
                if not re.fullmatch(r"_\d+", m.group(1)):
                    raise Unsupported("assignment to projection " + m.group(1))
                env[m.group(1)] = self.rvalue(m.group(2), env, fn, path)
            t = stmts[-1].rstrip(";")
            if t == "return":
                results.append((path, ("return", env.get("_0", Tup([])))))
                continue
            if t == "unreachable":
                results.append((path, ("panic", "MIR unreachable reached")))
                continue
            m = re.fullmatch(r"goto -> (bb\d+)", t)
            if m:
                work.append((m.group(1), env, path, steps + 1))
                continue
            m = re.fullmatch(r"switchInt\((.+)\) -> \[(.*)\]", t)
            if m:
                v = self.operand(m.group(1), env, fn, path)
                arms = [a.strip().split(": ") for a in m.group(2).split(",")]
                if v.const():
                    val = int(v.term)
                    tgt = None
                    for k, b in arms:
                        if k != "otherwise" and int(k) == val:
                            tgt = b
                    if tgt is None:
                        tgt = dict((k, b) for k, b in arms)["otherwise"]
                    work.append((tgt, env, path, steps + 1))
                    continue
                taken = []
                for k, b in arms:
                    p = path.fork()
                    if k == "otherwise":
                        for kk in taken:
                            p.conds.append("(not %s)" % kk)
                    else:
                        cnd = ("(not %s)" % v.term if int(k) == 0 else v.term) if v.ty == "bool" else "(= %s %s)" % (v.smt(), k)
                        taken.append(cnd)
                        p.conds.append(cnd)
                    work.append((b, env, p, steps + 1))
                continue
            m = re.fullmatch(r"assert\((!?)(.+?), (\".*?\").*\) -> \[success: (bb\d+), unwind .*\]", t)
            if m:
                v = self.operand(m.group(2), env, fn, path)
                neg = m.group(1) == "!"
                if v.const():
                    ok = (not v.term) if neg else bool(v.term)
                    if ok:
                        work.append((m.group(4), env, path, steps + 1))
                    else:
                        results.append((path, ("panic", m.group(3))))
                    continue
                good = "(not %s)" % v.term if neg else v.term
                p_ok, p_bad = path.fork(), path.fork()
                p_ok.conds.append(good)
                p_bad.conds.append("(not %s)" % good)
                work.append((m.group(4), env, p_ok, steps + 1))
                results.append((p_bad, ("panic", m.group(3))))
                continue
            m = re.fullmatch(r"(_\d+) = (.+\)) -> \[return: (bb\d+), unwind .*\]", t)
            if m:
                callexpr = m.group(2)
                depth, pos = 0, None
                for idx in range(len(callexpr) - 1, -1, -1):
                    if callexpr[idx] == ")":
                        depth += 1
                    elif callexpr[idx] == "(":
                        depth -= 1
                        if depth == 0:
                            pos = idx
                            break
                if pos is None:
                    raise Unsupported("call syntax " + t)
                m = (None, m.group(1), callexpr[:pos], callexpr[pos + 1:-1], m.group(3))
                m = type("M", (), {"group": lambda self, i, _m=m: _m[i]})()
                args_v = [self.operand(x, env, fn, path) for x in split_top(m.group(3))]
                for p, val in self.call(m.group(2), args_v, path, fn):
                    if isinstance(val, tuple) and val[0] == "panic":
                        results.append((p, val))
                    else:
                        e2 = dict(env)
                        e2[m.group(1)] = val
                        work.append((m.group(4), e2, p, steps + 1))
                continue
            m = re.fullmatch(r"drop\(.+\) -> \[return: (bb\d+), unwind .*\]", t)
            if m:
                work.append((m.group(1), env, path, steps + 1))
                continue
            raise Unsupported("terminator " + t)
        return results
