#!/usr/bin/env python3
"""Engine 2 driver: ./smt/run_smt.py <C01|C02|C06> [--tier quick|thorough]

1. finds the time-codec impls in the repository's *current* savefile/src/lib.rs (by text, so line
   shifts do not matter), dumps MIR of a scratch copy with the nightly toolchain,
2. symbolically executes the named functions (mir2smt.py), composes writer and reader,
3. asserts the negated property per path and asks z3 and cvc5 (both must answer, and agree),
4. validates the translator on concrete vectors against the real code (native oracle program),
5. replays every satisfying assignment natively before it is reported.
Prints one line 'SMTJSON:{...}' for ./check. Exit 0 holds / 1 violation / 2 inconclusive.
"""
import json, os, random, re, shutil, subprocess, sys, tempfile, time

HERE = os.path.dirname(os.path.abspath(__file__))
VERIF = os.path.dirname(HERE)
REPO = os.environ.get("VERIF_REPO", "/repo")
BUILD = os.path.join(VERIF, ".build")
sys.path.insert(0, HERE)
import mir2smt
from mir2smt import I, Dur, ST, En, Tup, Opaque, Path, Exec, Unsupported, NS

Z3 = shutil.which("z3") or "/usr/bin/z3"
CVC5 = shutil.which("cvc5") or "/usr/bin/cvc5"
U64, U128, I64MIN, I64MAX = (1 << 64) - 1, (1 << 128) - 1, -(1 << 63), (1 << 63) - 1


def log(*a):
    print(*a, flush=True)


# ----------------------------------------------------------------------------- MIR of the current tree
IMPLS = {
    "dur_ser": (r"^impl Serialize for Duration \{", "serialize"),
    "dur_de": (r"^impl Deserialize for Duration \{", "deserialize"),
    "st_ser": (r"^impl Serialize for SystemTime \{", "serialize"),
    "st_de": (r"^impl Deserialize for SystemTime \{", "deserialize"),
}


def dump_mir():
    if os.environ.get("VERIF_MIR_FILE"):  # debugging only
        src = open(os.path.join(REPO, "savefile", "src", "lib.rs")).read().splitlines()
        lines = {}
        for k, (pat, _) in IMPLS.items():
            lines[k] = [i + 1 for i, l in enumerate(src) if re.match(pat, l)][0]
        return open(os.environ["VERIF_MIR_FILE"]).read(), lines, 0.0
    src = open(os.path.join(REPO, "savefile", "src", "lib.rs")).read().splitlines()
    lines = {}
    for k, (pat, _) in IMPLS.items():
        hits = [i + 1 for i, l in enumerate(src) if re.match(pat, l)]
        if len(hits) != 1:
            raise Unsupported("cannot locate %s in savefile/src/lib.rs (%d matches)" % (pat, len(hits)))
        lines[k] = hits[0]
    scratch = tempfile.mkdtemp(prefix="verif_mir_")
    try:
        for d in ("savefile", "savefile-derive"):
            shutil.copytree(os.path.join(REPO, d), os.path.join(scratch, d), ignore=shutil.ignore_patterns("target"))
        shutil.copy(os.path.join(REPO, "Cargo.lock"), scratch)
        ver = re.search(r'\[workspace.package\]\s*version\s*=\s*"([^"]+)"', open(os.path.join(REPO, "Cargo.toml")).read())
        with open(os.path.join(scratch, "Cargo.toml"), "w") as f:
            f.write('[workspace]\nmembers = ["savefile","savefile-derive"]\nresolver = "2"\n[workspace.package]\nversion = "%s"\n' % (ver.group(1) if ver else "0.0.0"))
        env = dict(os.environ, CARGO_NET_OFFLINE="true", CARGO_TARGET_DIR=os.path.join(BUILD, "mir"))
        env.pop("RUSTUP_TOOLCHAIN", None)
        t0 = time.time()
        p = subprocess.run(["cargo", "+nightly", "rustc", "--offline", "--lib", "--no-default-features", "--", "-Zunpretty=mir",
                            "-C", "debug-assertions=off", "-C", "overflow-checks=on"],
                           cwd=os.path.join(scratch, "savefile"), env=env, capture_output=True, text=True, timeout=1200)
        if p.returncode != 0 or len(p.stdout) < 1000:
            raise Unsupported("MIR dump failed: " + p.stderr[-800:])
        return p.stdout, lines, time.time() - t0
    finally:
        shutil.rmtree(scratch, ignore_errors=True)


def fn_names(fns, lines):
    names = {}
    for k, (_, meth) in IMPLS.items():
        c = [n for n in fns if re.fullmatch(r"<impl at savefile/src/lib\.rs:%d:\d+: \d+:\d+>::%s" % (lines[k], meth), n)]
        if len(c) != 1:
            raise Unsupported("MIR body for %s not found (line %d)" % (k, lines[k]))
        names[k] = c[0]
    return names


# ----------------------------------------------------------------------------- solving
def script(decls, conds, extra=(), getvals=()):
    s = ["(set-logic ALL)", "(set-option :produce-models true)"]
    for d in decls:
        s.append("(declare-const %s Int)" % d)
    for c in list(conds) + list(extra):
        s.append("(assert %s)" % c)
    s.append("(check-sat)")
    if getvals:
        s.append("(get-value (%s))" % " ".join(getvals))
    return "\n".join(s) + "\n"


def quote(term):
    # fresh names contain '!' -> always written quoted
    return re.sub(r"(?<![|\w!])([A-Za-z_][\w]*![\d]+|in_[a-z]+)(?![\w!|])", r"|\1|", term)


def ask(solver, text, timeout=120):
    cmd = [Z3, "-in", "-T:%d" % timeout] if solver == "z3" else [CVC5, "--lang", "smt2", "--produce-models", "--tlimit=%d" % (timeout * 1000)]
    t0 = time.time()
    try:
        p = subprocess.run(cmd, input=text, capture_output=True, text=True, timeout=timeout + 20)
        out = p.stdout + p.stderr
    except subprocess.TimeoutExpired:
        return "timeout", "", time.time() - t0
    dt = time.time() - t0
    first = out.strip().splitlines()[0] if out.strip() else ""
    if first in ("unsat", "sat") and "(error" not in out.split("\n", 1)[0]:
        if first == "unsat" or "(error" not in out:
            return first, out, dt
    return "unknown", out, dt


def model_values(out, names):
    vals = {}
    for n in names:
        m = re.search(r"\(\|?%s\|? (\(- (\d+)\)|(\d+))\)" % re.escape(n), out)
        if m:
            vals[n] = -int(m.group(2)) if m.group(2) else int(m.group(3))
    return vals


class Ctx:
    def __init__(self):
        self.queries, self.violations, self.inconclusive = [], [], []
        self.solver_time = {"z3": 0.0, "cvc5": 0.0}
        self.n_unsat = 0
        self.witness = {}

    def need_witness(self, group, decls, conds):
        """a feasible writer path must have at least one feasible successful reader path (else the pass would be vacuous)"""
        a, _, dt = ask("cvc5", script(decls, conds))
        self.solver_time["cvc5"] += dt
        if a != "unsat" and not self.witness.get(group):
            self.inconclusive.append("%s: feasible path without any reachable successful outcome (vacuous encoding)" % group)

    def decide(self, qid, desc, decls, conds, bad, inputs, expect="unsat"):
        """expect 'unsat': the negated property must be unsatisfiable; 'sat': reachability witness"""
        text = script(decls, conds, [bad] if bad else [], inputs)
        r = {}
        for s in ("z3", "cvc5"):
            ans, out, dt = ask(s, text)
            self.solver_time[s] += dt
            r[s] = (ans, out)
        a, b = r["z3"][0], r["cvc5"][0]
        rec = {"query": qid, "desc": desc, "z3": a, "cvc5": b, "expect": expect, "n_asserts": len(conds) + (1 if bad else 0)}
        self.queries.append(rec)
        if a != b or a not in ("sat", "unsat"):
            rec["verdict"] = "inconclusive"
            self.inconclusive.append("%s: z3=%s cvc5=%s" % (qid, a, b))
            return None
        if a == expect:
            rec["verdict"] = "ok"
            if a == "unsat":
                self.n_unsat += 1
            else:
                self.witness[qid.split("_d")[0].split("_any")[0]] = True
            return None
        if expect == "sat":
            rec["verdict"] = "infeasible path combination"
            return None
        vals = model_values(r["z3"][1], inputs)
        rec["verdict"] = "counterexample"
        rec["model"] = {k: str(v) for k, v in vals.items()}
        return vals


# ----------------------------------------------------------------------------- native oracle
class Native:
    def __init__(self):
        d = os.path.join(BUILD, "smtnative_src")
        shutil.rmtree(d, ignore_errors=True)
        os.makedirs(os.path.join(d, "src"))
        shutil.copy(os.path.join(HERE, "native", "src", "main.rs"), os.path.join(d, "src", "main.rs"))
        with open(os.path.join(d, "Cargo.toml"), "w") as f:
            f.write('[package]\nname = "smtnative"\nversion = "0.0.0"\nedition = "2021"\n[workspace]\n[dependencies]\n'
                    'savefile = { path = "%s/savefile", default-features = false }\n' % REPO)
        shutil.copy(os.path.join(REPO, "Cargo.lock"), os.path.join(d, "Cargo.lock"))
        self.bins = {}
        env = dict(os.environ, CARGO_NET_OFFLINE="true", CARGO_TARGET_DIR=os.path.join(BUILD, "smtnative"))
        env.pop("RUSTUP_TOOLCHAIN", None)
        for prof, flag in (("debug", []), ("release", ["--release"])):
            p = subprocess.run(["cargo", "build", "--offline", "-q"] + flag, cwd=d, env=env, capture_output=True, text=True, timeout=1200)
            if p.returncode != 0:
                raise Unsupported("native oracle build failed: " + p.stderr[-600:])
            self.bins[prof] = os.path.join(BUILD, "smtnative", prof, "smtnative")

    def run(self, cmds, prof="debug"):
        p = subprocess.run([self.bins[prof]], input="\n".join(cmds) + "\n", capture_output=True, text=True, timeout=120)
        return p.stdout.strip().splitlines()


# ----------------------------------------------------------------------------- properties
def sym_inputs(ex, path):
    ds = I("in_ds", "u64"); dn = I("in_dn", "u32"); S = I("in_S", "i64"); N = I("in_N", "u32"); w = I("in_w", "u128")
    path.conds += ["(and (<= 0 in_ds) (<= in_ds %d))" % U64, "(and (<= 0 in_dn) (< in_dn %d))" % NS,
                   "(and (<= (- %d) in_S) (<= in_S %d))" % (-I64MIN, I64MAX), "(and (<= 0 in_N) (< in_N %d))" % NS,
                   "(and (<= 0 in_w) (<= in_w %d))" % U128]
    return ds, dn, S, N, w


INPUTS = ["in_ds", "in_dn", "in_S", "in_N", "in_w"]


def is_io(p):
    return "io_error" in p.notes


def main():
    prop = sys.argv[1]
    t0 = time.time()
    ctx = Ctx()
    res = {"status": "inconclusive", "engine": "MIR (rustc nightly -Zunpretty=mir) -> SMT-LIB (Int encoding with explicit wrap-around) -> z3 4.8.12 and cvc5 1.0, both must agree",
           "queries": [], "violations": []}
    try:
        mir, lines, mir_s = dump_mir()
        fns = mir2smt.parse_mir(mir)
        names = fn_names(fns, lines)
        res["mir_dump_s"] = round(mir_s, 1)
        res["source_lines"] = lines
        native = Native()
        ex = Exec(fns)
        violations = []

        def D():
            return ex.decls + INPUTS

        def report(qid, desc, vals, cmds_fn):
            """replay natively (dev and release profile); cmds_fn(vals) -> (cmds, predicate(lines)->bool reproduced)"""
            cmds, pred = cmds_fn(vals)
            rep = {}
            for prof in ("debug", "release"):
                out = native.run(cmds, prof)
                rep[prof] = {"out": out, "reproduced": bool(pred(out))}
            ok = any(v["reproduced"] for v in rep.values())
            rp = ""
            if ok:
                rd = os.path.join(VERIF, "replays", prop)
                os.makedirs(rd, exist_ok=True)
                rp = os.path.join(rd, "smt_%s.txt" % qid)
                with open(rp, "w") as f:
                    f.write("# engine 2 counterexample for %s (%s)\n# model: %s\n# feed to the native oracle (smt/native, built against the repository):\n%s\n# observed: %s\n"
                            % (qid, desc, vals, "\n".join(cmds), json.dumps(rep)))
            violations.append({"query": qid, "desc": desc, "model": {k: str(v) for k, v in vals.items()}, "replayed": ok, "replay_path": rp, "native": rep})

        # ---------- Duration
        def dur_paths():
            p0 = Path(); ds, dn, S, N, w = sym_inputs(ex, p0)
            return p0, ds, dn, S, N, w

        if prop in ("C01", "C02"):
            p0, ds, dn, S, N, w = dur_paths()
            sers = ex.run(names["dur_ser"], [Dur(ds, dn), Opaque("ser")], p0)
            n_ok = 0
            for i, (ps, oc) in enumerate(sers):
                if is_io(ps):
                    continue
                qid = "dur_ser_p%d" % i
                replay_ser = lambda v: (["dur_ser %d %d" % (v["in_ds"], v["in_dn"])], lambda o: True)
                if oc[0] == "panic" or not (isinstance(oc[1], En) and oc[1].variant == "Ok") or len(ps.out) != 1:
                    v = ctx.decide(qid + "_fail", "Duration::serialize panics / fails / writes != 1 word for a valid Duration", D(), ps.conds, None, INPUTS)
                    if v:
                        report(qid + "_fail", "Duration::serialize fails", v, lambda v: (["dur_ser %d %d" % (v["in_ds"], v["in_dn"])], lambda o: o and not o[0].startswith("OK")))
                    continue
                wt = ps.out[0]
                if prop == "C02":
                    v = ctx.decide(qid + "_wire", "Duration wire word == secs*10^9 + nanos", D(), ps.conds,
                                   "(distinct %s (+ (* in_ds %d) in_dn))" % (wt.smt(), NS), INPUTS)
                    if v:
                        report(qid + "_wire", "Duration wire word differs from secs*10^9+nanos", v,
                               lambda v: (["dur_ser %d %d" % (v["in_ds"], v["in_dn"])], lambda o: o and o[0] != "OK %d" % (v["in_ds"] * NS + v["in_dn"])))
                    n_ok += 1
                    continue
                pd0 = ps.fork(); pd0.tape = [I(wt.term, "u128")]; pd0.out = []
                for j, (pd, od) in enumerate(ex.run(names["dur_de"], [Opaque("de")], pd0)):
                    if is_io(pd):
                        continue
                    q2 = "dur_rt_s%d_d%d" % (i, j)
                    rt_cmds = lambda v: (["dur_ser %d %d" % (v["in_ds"], v["in_dn"])], None)

                    def rt_replay(v):
                        o1 = native.run(["dur_ser %d %d" % (v["in_ds"], v["in_dn"])])
                        cmds = ["dur_ser %d %d" % (v["in_ds"], v["in_dn"])]
                        if o1 and o1[0].startswith("OK "):
                            cmds.append("dur_de " + o1[0][3:])
                        return cmds, (lambda o: len(o) < 2 or o[1] != "OK %d %d" % (v["in_ds"], v["in_dn"]))
                    if od[0] == "panic" or not (isinstance(od[1], En) and od[1].variant == "Ok"):
                        v = ctx.decide(q2 + "_fail", "Duration round trip: reader panics (%s) or returns Err" % (od[1] if od[0] == "panic" else "Err"), D(), pd.conds, None, INPUTS)
                        if v:
                            report(q2 + "_fail", "Duration reader fails on written data", v, rt_replay)
                        continue
                    d2 = od[1].fields[0]
                    v = ctx.decide(q2 + "_eq", "Duration round trip: load(save(d)) == d", D(), pd.conds,
                                   "(or (distinct %s in_ds) (distinct %s in_dn))" % (d2.secs.smt(), d2.nanos.smt()), INPUTS)
                    if v:
                        report(q2 + "_eq", "Duration does not round-trip", v, rt_replay)
                    ctx.decide(q2 + "_reach", "reachability witness", D(), pd.conds, None, INPUTS, expect="sat")
                    n_ok += 1
                ctx.need_witness("dur_rt_s%d" % i, D(), ps.conds)
            if n_ok == 0:
                ctx.inconclusive.append("no successful Duration path found (vacuous)")

            # ---------- SystemTime
            p0, ds, dn, S, N, w = dur_paths()
            sers = ex.run(names["st_ser"], [ST(S, N), Opaque("ser")], p0)
            n_ok = 0
            ref_w = "(ite (>= in_S 0) (+ (* in_S %d) in_N) (+ %d (- (* (- 0 in_S) %d) in_N)))" % (NS, 1 << 127, NS)

            def st_ref(v):
                s, n = v["in_S"], v["in_N"]
                return s * NS + n if s >= 0 else (1 << 127) + (-s) * NS - n
            for i, (ps, oc) in enumerate(sers):
                if is_io(ps):
                    continue
                qid = "st_ser_p%d" % i
                if oc[0] == "panic" or not (isinstance(oc[1], En) and oc[1].variant == "Ok") or len(ps.out) != 1:
                    v = ctx.decide(qid + "_fail", "SystemTime::serialize panics / refuses a representable SystemTime", D(), ps.conds, None, INPUTS)
                    if v:
                        report(qid + "_fail", "SystemTime::serialize fails", v, lambda v: (["st_ser %d %d" % (v["in_S"], v["in_N"])], lambda o: o and o[0] in ("ERR", "PANIC")))
                    continue
                wt = ps.out[0]
                if prop == "C02":
                    v = ctx.decide(qid + "_wire", "SystemTime wire word == nanos since epoch | bit 127 + nanos before epoch", D(), ps.conds,
                                   "(distinct %s %s)" % (wt.smt(), ref_w), INPUTS)
                    if v:
                        report(qid + "_wire", "SystemTime wire word differs from the documented encoding", v,
                               lambda v: (["st_ser %d %d" % (v["in_S"], v["in_N"])], lambda o: o and o[0] not in ("UNREP", "OK %d" % st_ref(v))))
                    n_ok += 1
                    continue
                pd0 = ps.fork(); pd0.tape = [I(wt.term, "u128")]; pd0.out = []
                for j, (pd, od) in enumerate(ex.run(names["st_de"], [Opaque("de")], pd0)):
                    if is_io(pd):
                        continue
                    q2 = "st_rt_s%d_d%d" % (i, j)

                    def st_replay(v):
                        cmds = ["st_ser %d %d" % (v["in_S"], v["in_N"])]
                        o1 = native.run(cmds)
                        if o1 and o1[0].startswith("OK "):
                            cmds.append("st_de " + o1[0][3:])
                        return cmds, (lambda o: o[0] != "UNREP" and (len(o) < 2 or o[1] != "OK %d %d" % (v["in_S"], v["in_N"])))
                    if od[0] == "panic" or not (isinstance(od[1], En) and od[1].variant == "Ok"):
                        v = ctx.decide(q2 + "_fail", "SystemTime round trip: reader panics (%s) or returns Err" % (od[1] if od[0] == "panic" else "Err"), D(), pd.conds, None, INPUTS)
                        if v:
                            report(q2 + "_fail", "SystemTime reader fails on written data", v, st_replay)
                        continue
                    t2 = od[1].fields[0]
                    v = ctx.decide(q2 + "_eq", "SystemTime round trip: load(save(t)) == t", D(), pd.conds,
                                   "(or (distinct %s in_S) (distinct %s in_N))" % (t2.secs.smt(), t2.nanos.smt()), INPUTS)
                    if v:
                        report(q2 + "_eq", "SystemTime does not round-trip", v, st_replay)
                    ctx.decide(q2 + "_reach", "reachability witness", D(), pd.conds, None, INPUTS, expect="sat")
                    n_ok += 1
                ctx.need_witness("st_rt_s%d" % i, D(), ps.conds)
            if n_ok == 0:
                ctx.inconclusive.append("no successful SystemTime path found (vacuous)")

        if prop == "C06":
            for key, cmd in (("dur_de", "dur_de"), ("st_de", "st_de")):
                p0, ds, dn, S, N, w = dur_paths()
                p0.tape = [w]
                n_ret = 0
                for j, (pd, od) in enumerate(ex.run(names[key], [Opaque("de")], p0)):
                    if is_io(pd):
                        continue
                    q = "%s_any_p%d" % (key, j)
                    if od[0] == "panic":
                        v = ctx.decide(q + "_nopanic", "%s on 16 arbitrary bytes: panic '%s' unreachable" % (key, od[1]), D(), pd.conds, None, INPUTS)
                        if v:
                            report(q + "_nopanic", "%s panics on malformed input" % key, v, lambda v, cmd=cmd: (["%s %d" % (cmd, v["in_w"])], lambda o: o and o[0] == "PANIC"))
                        continue
                    n_ret += 1
                    if isinstance(od[1], En) and od[1].variant == "Ok":
                        val = od[1].fields[0]
                        v = ctx.decide(q + "_valid", "%s on 16 arbitrary bytes: result has nanos < 10^9" % key, D(), pd.conds,
                                       "(or (< %s 0) (>= %s %d))" % (val.nanos.smt(), val.nanos.smt(), NS), INPUTS)
                        if v:
                            report(q + "_valid", "%s returns an invalid value" % key, v, lambda v, cmd=cmd: (["%s %d" % (cmd, v["in_w"])], lambda o: False))
                        ctx.decide(q + "_reach", "reachability witness", D(), pd.conds, None, INPUTS, expect="sat")
                ctx.need_witness(key.split("_")[0], D(), p0.conds)
                if n_ret == 0:
                    ctx.inconclusive.append("%s: no returning path (vacuous)" % key)

        # ---------- translator validation on concrete vectors (repo test literals, boundaries, seeded values)
        rnd = random.Random(int(os.environ.get("VERIF_SEED", "0") or 0) + 7)
        wv = [0, 1, NS - 1, NS, NS + 1, U64, U64 + 1, (1 << 120) - 1, 1 << 120, (1 << 127) - 1, 1 << 127, (1 << 127) + 1, (1 << 127) + NS,
              U128, I64MAX * NS + NS - 1, (I64MAX + 1) * NS, (1 << 127) + (I64MAX + 1) * NS, (1 << 127) + (I64MAX + 1) * NS + 1,
              1_600_000_000 * NS + 123, 27 * NS + 5] + [rnd.getrandbits(rnd.choice([20, 64, 90, 128])) for _ in range(24)]
        mism = []
        for key, cmd in (("dur_de", "dur_de"), ("st_de", "st_de")):
            nat = native.run(["%s %d" % (cmd, x) for x in wv])
            ex2 = Exec(fns)
            p0 = Path(); ins = sym_inputs(ex2, p0); p0.tape = [ins[4]]
            paths = [(p, o) for p, o in ex2.run(names[key], [Opaque("de")], p0) if not is_io(p)]
            txt = ["(set-logic ALL)", "(set-option :produce-models true)"] + ["(declare-const %s Int)" % d for d in ex2.decls + INPUTS + ["vo_s", "vo_n"]]
            for xi, x in enumerate(wv):
                for pi, (p, o) in enumerate(paths):
                    ov = []
                    if o[0] == "return" and isinstance(o[1], En) and o[1].variant == "Ok":
                        val = o[1].fields[0]
                        ov = ["(= vo_s %s)" % val.secs.smt(), "(= vo_n %s)" % val.nanos.smt()]
                    txt += ['(echo "@@ %d %d")' % (xi, pi), "(push)"] + ["(assert %s)" % c for c in p.conds + ["(= in_w %d)" % x] + ov] + ["(check-sat)", "(get-value (vo_s vo_n))", "(pop)"]
            tz = time.time()
            pz = subprocess.run([Z3, "-in", "-T:600"], input="\n".join(txt) + "\n", capture_output=True, text=True, timeout=700)
            ctx.solver_time["z3"] += time.time() - tz
            enc = {}
            for chunk in pz.stdout.split("@@ ")[1:]:
                head, _, rest = chunk.partition("\n")
                xi, pi = [int(t) for t in head.split()]
                if rest.lstrip().startswith("sat") and xi not in enc:
                    o = paths[pi][1]
                    if o[0] == "panic":
                        enc[xi] = "PANIC"
                    elif isinstance(o[1], En) and o[1].variant == "Ok":
                        mv = model_values(rest, ["vo_s", "vo_n"])
                        enc[xi] = "OK %d %d" % (mv.get("vo_s", -1), mv.get("vo_n", -1))
                    else:
                        enc[xi] = "ERR"
            for xi, (x, n_out) in enumerate(zip(wv, nat)):
                if enc.get(xi) != n_out:
                    mism.append({"fn": key, "input": str(x), "native": n_out, "encoding": enc.get(xi)})
        res["translator_validation"] = {"vectors": 2 * len(wv), "mismatches": mism[:10]}
        if mism:
            ctx.inconclusive.append("translator validation: encoding and real code disagree on %d concrete vectors (first: %s)" % (len(mism), mism[0]))

        res["functions_encoded"] = sorted(ex.encoded)
        res["std_models"] = sorted(ex.models_used)
        res["bounds"] = "none inside the encoded functions: all 2^64 x 10^9 Durations, all 2^64 x 10^9 SystemTime values (unix i64 s + ns), all 2^128 input words; loop-free code, every path enumerated"
        res["violations"] = violations
    except Unsupported as e:
        ctx.inconclusive.append("unsupported construct: %s" % e)
    except Exception as e:  # never report success on an internal error
        ctx.inconclusive.append("internal error: %r" % (e,))
    res["queries"] = ctx.queries
    res["n_queries"] = len(ctx.queries)
    res["n_unsat"] = ctx.n_unsat
    res["solver_time_s"] = {k: round(v, 2) for k, v in ctx.solver_time.items()}
    res["inconclusive"] = ctx.inconclusive
    replayed = [v for v in res["violations"] if v.get("replayed")]
    if replayed:
        res["status"] = "violation"
    elif ctx.inconclusive or res["violations"] or not ctx.queries:
        res["status"] = "inconclusive"
        res["reason"] = "; ".join(ctx.inconclusive[:3]) or ("counterexample did not replay natively" if res["violations"] else "no queries")
    else:
        res["status"] = "holds"
    res["wall_s"] = round(time.time() - t0, 1)
    log("SMTJSON:" + json.dumps(res))
    return {"holds": 0, "violation": 1}.get(res["status"], 2)


if __name__ == "__main__":
    sys.exit(main())
